// parent crate required by cargo-fuzz; the fuzz project lives in ./fuzz
