// Shared between the libFuzzer target and the harness (include!): decoding of the 8-byte data
// prefix of a `render` fuzz input into generated globals.  Uses only `arbitrary::Unstructured`.

#[derive(Clone, Debug)]
pub enum FV {
    Nil,
    Bool(bool),
    Int(i64),
    Float(f64),
    Str(String),
    Arr(Vec<FV>),
    Obj(Vec<(String, FV)>),
}

pub fn decode_value(u: &mut arbitrary::Unstructured<'_>, depth: u32) -> FV {
    let kind = u.int_in_range(0..=if depth == 0 { 5 } else { 7 }).unwrap_or(0);
    match kind {
        0 => FV::Nil,
        1 => FV::Bool(u.arbitrary::<bool>().unwrap_or(false)),
        2 => FV::Int(*u.choose(&[0i64, 1, -1, 7, i64::MAX, i64::MIN, 1 << 53]).unwrap_or(&0)),
        3 => FV::Float(*u.choose(&[0.5f64, -2.5, 1e18, f64::INFINITY, 0.0]).unwrap_or(&0.0)),
        4 => FV::Str(u.choose(&["", " ", "a", "é", "😀", "10", "1.5", "<&>", "日本語テキスト", "2020-02-29 12:00:00 +0100"]).map(|s| s.to_string()).unwrap_or_default()),
        5 => FV::Int(u.int_in_range(-20i64..=20).unwrap_or(0)),
        6 => {
            let n = u.int_in_range(0..=5usize).unwrap_or(0);
            FV::Arr((0..n).map(|_| decode_value(u, depth - 1)).collect())
        }
        _ => {
            let n = u.int_in_range(0..=3usize).unwrap_or(0);
            let mut o: Vec<(String, FV)> = Vec::new();
            for _ in 0..n {
                let k = u.choose(&["a", "b", "size", "first"]).copied().unwrap_or("a");
                let v = decode_value(u, depth - 1);
                if let Some(slot) = o.iter_mut().find(|(kk, _)| kk == k) {
                    slot.1 = v;
                } else {
                    o.push((k.to_string(), v));
                }
            }
            FV::Obj(o)
        }
    }
}

pub const GLOBAL_NAMES: [&str; 4] = ["x", "y", "z", "arr"];

/// (template text, globals) or None if the input is outside the property's domain
pub fn decode_input(data: &[u8]) -> Option<(&str, Vec<(String, FV)>)> {
    if data.len() < 8 || data.len() > 2048 {
        return None;
    }
    let (head, tail) = data.split_at(8);
    let text = std::str::from_utf8(tail).ok()?;
    // unbounded work by design is outside the property: numbers of more than 4 digits
    // (ranges / widths above 10^4)
    let mut digits = 0;
    for b in text.bytes() {
        if b.is_ascii_digit() {
            digits += 1;
            if digits > 4 {
                return None;
            }
        } else {
            digits = 0;
        }
    }
    let mut u = arbitrary::Unstructured::new(head);
    let globals = GLOBAL_NAMES.iter().map(|n| (n.to_string(), decode_value(&mut u, 2))).collect();
    Some((text, globals))
}
