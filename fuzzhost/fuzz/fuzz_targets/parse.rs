#![no_main]
//! C01 (thorough tier supplement): coverage-guided bytes -> parse under three configurations.
//! Oracle inside the target: no panic (libFuzzer turns a panic into a crash); an error must carry a
//! message.
use libfuzzer_sys::fuzz_target;
use std::sync::OnceLock;

fn parsers() -> &'static [liquid::Parser; 3] {
    static P: OnceLock<[liquid::Parser; 3]> = OnceLock::new();
    P.get_or_init(|| {
        let full = liquid::ParserBuilder::with_stdlib()
            .filter(liquid_lib::jekyll::Slugify)
            .filter(liquid_lib::jekyll::Push)
            .filter(liquid_lib::jekyll::Pop)
            .filter(liquid_lib::jekyll::Unshift)
            .filter(liquid_lib::jekyll::Shift)
            .filter(liquid_lib::jekyll::ArrayToSentenceString)
            .filter(liquid_lib::jekyll::Sort)
            .filter(liquid_lib::shopify::Pluralize)
            .filter(liquid_lib::extra::DateInTz)
            .build()
            .unwrap();
        [liquid::ParserBuilder::with_stdlib().build().unwrap(), full, liquid::ParserBuilder::new().build().unwrap()]
    })
}

fuzz_target!(|data: &[u8]| {
    let Ok(text) = std::str::from_utf8(data) else { return };
    // nesting depth <= 32 (property bound): count block openers roughly
    if text.matches("{%").count() > 200 || text.len() > 4096 {
        return;
    }
    for p in parsers() {
        if let Err(e) = p.parse(text) {
            assert!(!e.to_string().trim().is_empty(), "parse error without a message");
        }
    }
});
