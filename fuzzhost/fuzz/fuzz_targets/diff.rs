#![no_main]
//! Engine E6b: coverage-guided differential against the reference interpreter (C03, C04, C05,
//! C06, C08).  Bytes -> (envelope, template AST, data) through the harness's byte-driven decoder;
//! the oracle is the sub-check's own (verif::fuzzdiff).  VERIF_DIFF_ENVELOPE=<ID> pins the envelope.
use libfuzzer_sys::fuzz_target;

fuzz_target!(|data: &[u8]| {
    verif::fuzzdiff::fuzz_one(data);
});
