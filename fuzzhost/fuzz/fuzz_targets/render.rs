#![no_main]
//! C02 (thorough tier supplement): bytes are decoded into (template source, data) and rendered.
//! Oracle inside the target: no panic; render() and render_to() agree; output is valid UTF-8.
use libfuzzer_sys::fuzz_target;
use liquid::model::Value;
use std::sync::OnceLock;

fn parser() -> &'static liquid::Parser {
    static P: OnceLock<liquid::Parser> = OnceLock::new();
    P.get_or_init(|| liquid::ParserBuilder::with_stdlib().build().unwrap())
}

include!("decode.rs");

fn to_value(v: &FV) -> Value {
    match v {
        FV::Nil => Value::Nil,
        FV::Bool(b) => Value::scalar(*b),
        FV::Int(i) => Value::scalar(*i),
        FV::Float(f) => Value::scalar(*f),
        FV::Str(s) => Value::scalar(s.clone()),
        FV::Arr(a) => Value::Array(a.iter().map(to_value).collect()),
        FV::Obj(o) => {
            let mut obj = liquid::Object::new();
            for (k, v) in o {
                obj.insert(k.clone().into(), to_value(v));
            }
            Value::Object(obj)
        }
    }
}

fuzz_target!(|data: &[u8]| {
    let Some((text, globals)) = decode_input(data) else { return };
    let Ok(tpl) = parser().parse(text) else { return };
    let mut g = liquid::Object::new();
    for (n, v) in &globals {
        g.insert(n.clone().into(), to_value(v));
    }
    let a = tpl.render(&g);
    let mut buf = Vec::new();
    let b = tpl.render_to(&mut buf, &g);
    assert_eq!(a.is_ok(), b.is_ok(), "render and render_to disagree on success");
    assert!(std::str::from_utf8(&buf).is_ok(), "emitted bytes are not UTF-8");
    if let Ok(s) = a {
        assert_eq!(s.as_bytes(), buf.as_slice(), "render and render_to emit different bytes");
    }
});
