#!/bin/bash
# usage: tools/all_seeds.sh <tier> <seed>...   — runs every claimed check for each seed in scratch mode; prints one line per run
tier=$1; shift
cd /verif/harness && CARGO_NET_OFFLINE=true cargo build --offline --profile verif >/dev/null 2>&1 || { echo BUILD-FAILED; exit 2; }
for seed in "$@"; do
  for id in $(/verif/harness/target/verif/verif list); do
    start=$(date +%s)
    out=$(VERIF_SCRATCH=1 VERIF_SEED=$seed /verif/harness/target/verif/verif check $id --tier $tier 2>&1)
    rc=$?
    echo "seed=$seed $id rc=$rc $(($(date +%s)-start))s $(echo "$out" | grep -E '^property=' | sed 's/property=[A-Z0-9]* tier=[A-Za-z]* seed=[0-9]* //')"
    if [ $rc -ne 0 ]; then echo "$out" | grep -E "^VIOLATION|^  sub=|^  detail=|^INCONCLUSIVE|HARNESS" | cut -c1-600 | head -12; fi
  done
done
