#!/bin/bash
# usage: tools/seed3_eval.sh <ID>  — confirm round-3 mutants of <ID> (from /tmp/seed3/<ID>/out/k) and store them as seeded/<ID>-r3-k
ID=$1
for k in 1 2 3; do
  [ -f /tmp/seed3/$ID/out/$k/patch.diff ] || continue
  SRC=/tmp/seed3/$ID/out/$k
  mkdir -p /tmp/seed/$ID/out/r3-$k && cp $SRC/patch.diff $SRC/demo.rs $SRC/meta.json /tmp/seed/$ID/out/r3-$k/ 2>/dev/null
  /verif/tools/confirm_seed.sh $ID r3-$k
done
