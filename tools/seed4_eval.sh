#!/bin/bash
# usage: tools/seed4_eval.sh <ID> [lane]
# Round 4: confirm the changes a sub-agent left in /tmp/r4/out/<ID>/{1,2} (confirm_seed.sh: patch applies,
# whole suite green with it, demo fails with it / passes without), store each as seeded/<ID>-r4-<k>, then run
# the quick check of <ID> against it in an isolated worktree (eval_iso.sh).  One line per change in
# /tmp/r4/results/<ID>.txt.
ID=$1; LANE=${2:-$1}
mkdir -p /tmp/r4/results
: > /tmp/r4/results/$ID.txt
for k in 1 2; do
  SRC=/tmp/r4/out/$ID/$k
  [ -f $SRC/patch.diff ] || continue
  mkdir -p /tmp/seed/$ID/out/r4-$k && cp $SRC/patch.diff $SRC/demo.rs $SRC/meta.json /tmp/seed/$ID/out/r4-$k/ 2>/dev/null
  c=$(CONFIRM_LANE=$LANE /verif/tools/confirm_seed.sh $ID r4-$k 2>&1 | tail -1)
  echo "$c" >> /tmp/r4/results/$ID.txt
  case "$c" in *CONFIRMED*) ;; *) continue;; esac
  ISO=$LANE LINES_MAX=4 /verif/tools/eval_iso.sh /verif/seeded/$ID-r4-$k/patch.diff $ID > /tmp/r4/results/$ID-$k.eval 2>&1
  echo "$ID-r4-$k eval: $(grep -E '^== ' /tmp/r4/results/$ID-$k.eval) $(grep -E '^  sub=' /tmp/r4/results/$ID-$k.eval | head -1 | cut -c1-160)" >> /tmp/r4/results/$ID.txt
done
cat /tmp/r4/results/$ID.txt
