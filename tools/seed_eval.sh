#!/bin/bash
# usage: tools/seed_eval.sh <dir-with-out/k/patch.diff> <ID> [<ID>...]   e.g. tools/seed_eval.sh /tmp/seed/C06 C06
# or:    tools/seed_eval.sh /verif/seeded C06   (uses /verif/seeded/C06-*/patch.diff)
base="$1"; shift
for p in "$base"/out/*/patch.diff "$base"/$1-*/patch.diff; do
  [ -f "$p" ] || continue
  echo "#### $p : $(python3 -c "import json,sys;print(json.load(open(sys.argv[1]))['summary'][:150])" "$(dirname $p)/meta.json" 2>/dev/null)"
  LINES_MAX=4 /verif/tools/with_patch.sh "$p" "$@" 2>&1 | cut -c1-300
done
