#!/bin/bash
# usage: tools/seed2_eval.sh <ID>  — confirm round-2 mutants of <ID> (from /tmp/seed2/<ID>/out/k) and evaluate them
ID=$1
for k in 1 2 3; do
  [ -f /tmp/seed2/$ID/out/$k/patch.diff ] || continue
  # reuse confirm_seed with a different source dir and target name
  SRC=/tmp/seed2/$ID/out/$k
  mkdir -p /tmp/seed/$ID/out/r2-$k && cp $SRC/patch.diff $SRC/demo.rs $SRC/meta.json /tmp/seed/$ID/out/r2-$k/ 2>/dev/null
  /verif/tools/confirm_seed.sh $ID r2-$k
done
