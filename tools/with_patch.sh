#!/bin/bash
# usage: tools/with_patch.sh <patch.diff | -R <commit>> <ID> [<ID>...]
# Applies a patch (or reverts a commit) in /repo's working tree, runs the quick checks, restores.
set -u
cd /repo || exit 2
if [ -n "$(git status --porcelain --untracked-files=no)" ]; then echo "/repo not clean"; exit 2; fi
if [ "$1" = "-R" ]; then
  git show "$2" | git apply -R || { echo "cannot revert $2"; exit 2; }
  shift; shift
else
  git apply "$1" || { echo "cannot apply $1"; exit 2; }
  shift
fi
export VERIF_SCRATCH=1
for id in "$@"; do
  out=$(cd /verif && ./check.sh "$id" "${TIER:-quick}" 2>&1)
  rc=$?
  echo "== $id exit=$rc"
  echo "$out" | grep -E "^VIOLATION|^  sub=|^  detail=|^KNOWN|^INCONCLUSIVE|^BUILD|^property=" | cut -c1-400 | head -${LINES_MAX:-8}
done
git -C /repo checkout -- . 
