#!/bin/bash
# usage: tools/confirm_seed.sh <ID> <k>   — independently confirms mutant /tmp/seed/<ID>/out/<k> in scratch worktree /tmp/confirm/wt
# and, if confirmed, stores it as /verif/seeded/<ID>-<k>/ (patch.diff, demo.rs, meta.json with what was run).
set -u
ID=$1; K=$2
SRC=/tmp/seed/$ID/out/$K
L=${CONFIRM_LANE:-}
WT=/tmp/confirm$L/wt
export CARGO_TARGET_DIR=/tmp/confirm$L/target
mkdir -p /tmp/confirm$L
if [ ! -d $WT ]; then git -C /repo worktree add -q --detach $WT HEAD || exit 2; fi
cd $WT || exit 2
git checkout -q --detach "$(git -C /repo rev-parse HEAD)" 2>/dev/null
git checkout -q -- . && git clean -fdq
res() { echo "$ID-$K: $*"; }
git apply --check "$SRC/patch.diff" 2>/dev/null || { res "REJECT patch does not apply"; exit 1; }
git apply "$SRC/patch.diff"
if ! cargo test --workspace --no-fail-fast --offline > /tmp/confirm$L/suite.log 2>&1; then res "REJECT suite fails with patch"; git checkout -q -- .; exit 1; fi
passed=$(grep -c "^test .* ok$" /tmp/confirm$L/suite.log)
cp "$SRC/demo.rs" tests/seed_demo.rs
if cargo test --test seed_demo --offline > /tmp/confirm$L/demo_with.log 2>&1; then res "REJECT demo passes with patch"; git checkout -q -- .; rm -f tests/seed_demo.rs; exit 1; fi
grep -q "test result: FAILED" /tmp/confirm$L/demo_with.log || { res "REJECT demo did not run to a test failure (compile error?)"; git checkout -q -- .; rm -f tests/seed_demo.rs; exit 1; }
git checkout -q -- .
if ! cargo test --test seed_demo --offline > /tmp/confirm$L/demo_without.log 2>&1; then res "REJECT demo fails without patch"; rm -f tests/seed_demo.rs; exit 1; fi
rm -f tests/seed_demo.rs
D=/verif/seeded/$ID-$K
mkdir -p $D
cp "$SRC/patch.diff" "$SRC/demo.rs" $D/
python3 - "$SRC/meta.json" "$D/meta.json" "$passed" <<'PY'
import json,sys
m=json.load(open(sys.argv[1]))
m["confirmed_by_me"]={"base_commit_repo": __import__('subprocess').check_output(["git","-C","/repo","rev-parse","--short","HEAD"]).decode().strip(),
 "ran":["git apply patch.diff in scratch worktree /tmp/confirm/wt","cargo test --workspace --no-fail-fast --offline (with patch): exit 0, %s test lines ok" % sys.argv[3],
        "cp demo.rs tests/seed_demo.rs; cargo test --test seed_demo --offline (with patch): FAILED","same without patch: ok"]}
json.dump(m,open(sys.argv[2],"w"),indent=1)
PY
res "CONFIRMED"
