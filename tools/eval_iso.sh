#!/bin/bash
# usage: tools/eval_iso.sh <patch.diff> <ID> [<ID>...]
# Like with_patch.sh but on an isolated copy (git worktree /tmp/evalrepo + harness copy /tmp/evalharness whose
# path dependencies point there), so that /repo is not touched while other checks are running against it.
# ISO=<suffix> selects a second, independent copy.
# Development aid only: seeded/RESULTS.md is produced by seed_matrix.sh against /repo itself.
set -u
P=$1; shift
R=/tmp/evalrepo${ISO:-}; H=/tmp/evalharness${ISO:-}
[ -d $R ] || git -C /repo worktree add -q --detach $R HEAD || exit 2
git -C $R checkout -q --detach "$(git -C /repo rev-parse HEAD)"; git -C $R checkout -q -- .
mkdir -p $H; rsync -a --exclude target --exclude Cargo.toml /verif/harness/ $H/
sed "s#path = \"/repo#path = \"$R#g" /verif/harness/Cargo.toml > $H/Cargo.toml
git -C $R apply "$P" || { echo "cannot apply $P"; exit 2; }
( cd $H && CARGO_NET_OFFLINE=true cargo build --offline --profile verif > $H/build.log 2>&1 ) || { echo "BUILD failed"; tail -5 $H/build.log; git -C $R checkout -q -- .; exit 2; }
export VERIF_SCRATCH=1
for id in "$@"; do
  out=$($H/target/verif/verif check "$id" --tier "${TIER:-quick}" 2>&1); rc=$?
  echo "== $id exit=$rc"
  echo "$out" | grep -E "^VIOLATION|^  sub=|^  detail=|^INCONCLUSIVE|^property=" | cut -c1-400 | head -${LINES_MAX:-6}
done
git -C $R checkout -q -- .
