#!/bin/bash
# Run the repository's pinned test suite (hooks/guards off) and summarise.
cd /repo || exit 2
cargo test --workspace --no-fail-fast --offline > /tmp/suite.$$.log 2>&1
rc=$?
passed=$(grep -c "^test .* ok$" /tmp/suite.$$.log)
failed=$(grep -c "^test .* FAILED$" /tmp/suite.$$.log)
echo "suite exit=$rc passed_lines=$passed failed_lines=$failed"
grep -E "^test .* FAILED$|^error" /tmp/suite.$$.log | head -20
rm -f /tmp/suite.$$.log
exit $rc
