#!/bin/bash
# waits until the machine is reasonably idle, then runs every thorough tier once in scratch mode
while [ "$(cut -d' ' -f1 /proc/loadavg | cut -d. -f1)" -gt "${MAXLOAD:-24}" ]; do sleep 60; done
cd /verif
for id in $(/verif/harness/target/verif/verif list); do
  start=$(date +%s)
  out=$(VERIF_SCRATCH=1 VERIF_SEED=${SEED:-0} ./check.sh $id thorough 2>&1); rc=$?
  echo "$id rc=$rc $(($(date +%s)-start))s $(echo "$out" | grep -E '^property=|^fuzz target' | tr '\n' ' ' | cut -c1-400)"
  if [ $rc -ne 0 ]; then echo "$out" | grep -E "^VIOLATION|^  sub=|^  detail=|^INCONCLUSIVE|HARNESS|STALL|ABORT" | cut -c1-700 | head -12; fi
done
