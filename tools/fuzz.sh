#!/bin/bash
# usage: tools/fuzz.sh <C01|C02|C03|C04|C05|C06|C08> <seconds>
# Coverage-guided supplement of the thorough tier.  E6: libFuzzer on the parse / render target with
# a seed corpus of generated templates and a keyword dictionary (C01, C02).  E6b: libFuzzer on the
# `diff` target (C03-C06, C08): bytes are decoded into the case type of the property's random
# sub-check (harness/src/astdec.rs) and judged by that sub-check's own oracle (reference interpreter).  A crash is turned into a replay
# file and re-judged by the harness's own oracle; only a confirmed one is reported.
# exit 0 = nothing found, 1 = confirmed violation (VIOLATION line printed by the harness),
# 2 = inconclusive (tool failure / unconfirmed crash).
set -u
ID=$1; SECS=${2:-120}
case $ID in C01) T=parse;; C02) T=render;; C03|C04|C05|C06|C08) T=diff; export VERIF_DIFF_ENVELOPE=$ID;; *) echo "no fuzz target for $ID"; exit 0;; esac
# the diff target allocates heavily (parser construction per case): keep ASan's quarantine small
[ $T = diff ] && export ASAN_OPTIONS=quarantine_size_mb=1:malloc_context_size=0:detect_leaks=0
V=/verif/harness/target/verif/verif
F=/verif/fuzzhost/fuzz
cd $F || exit 2
export CARGO_NET_OFFLINE=true
if ! cargo +nightly fuzz build $T >/tmp/fuzz_build.$$.log 2>&1; then echo "INCONCLUSIVE: cargo fuzz build failed"; tail -5 /tmp/fuzz_build.$$.log; rm -f /tmp/fuzz_build.$$.log; exit 2; fi
rm -f /tmp/fuzz_build.$$.log
C=$F/corpus/$T; A=$F/artifacts/$T
rm -rf "$C" "$A"; mkdir -p "$C" "$A"
if [ $T = diff ]; then $V diff-corpus "$C" 300 || exit 2; : > $F/dict.txt
else $V corpus $T "$C" 300 || exit 2; $V fuzz-dict > $F/dict.txt 2>/dev/null; fi
SEED=$(( ${VERIF_SEED:-0} + 1 ))
BIN=$F/target/x86_64-unknown-linux-gnu/release/$T
LOG=$F/fuzz_$T.log
# 8 independent libFuzzer processes (different seeds) sharing the corpus directory; each one
# stops at its first crash, whose input lands in the artifact directory
pids=""
TMO=20; [ $T = diff ] && TMO=120
for w in 1 2 3 4 5 6 7 8; do
  "$BIN" "$C" $( [ -s $F/dict.txt ] && echo -dict=$F/dict.txt ) -max_total_time=$SECS -seed=$(( SEED * 100 + w )) -len_control=0 -max_len=2048 -timeout=$TMO -rss_limit_mb=4096 -reload=1 -print_final_stats=1 -artifact_prefix="$A/" > "$LOG.$w" 2>&1 &
  pids="$pids $!"
done
wait $pids
cat "$LOG".[1-8] > "$LOG"; rm -f "$LOG".[1-8]
execs=$(grep -oE "stat::number_of_executed_units: [0-9]+" "$LOG" | awk '{s+=$2} END {print s+0}')
cov=$(grep -oE "cov: [0-9]+" "$LOG" | sort -t' ' -k2 -n | tail -1)
ncorp=$(ls "$C" | wc -l)
ncrash=$(ls "$A" 2>/dev/null | grep -c "^crash-" )
ntimeout=$(ls "$A" 2>/dev/null | grep -c "^timeout-\|^oom-")
echo "fuzz target=$T seconds=$SECS executions=${execs:-?} $cov corpus=$ncorp crash_artifacts=$ncrash timeout_or_oom_artifacts=$ntimeout"
python3 - "$ID" "$T" "${execs:-0}" "$ncorp" "$ncrash" "$ntimeout" "$SECS" <<'PY'
import json,sys
ID,T,execs,ncorp,ncrash,nto,secs=sys.argv[1:]
import os
p=f"/verif/evidence{'.scratch' if os.environ.get('VERIF_SCRATCH') else ''}/{ID}.json"
try:
    e=json.load(open(p))
    e["coverage"]["fuzz_campaign"]={"engine":"libFuzzer via cargo-fuzz","target":T,"seconds":int(secs),"executions":int(execs or 0),"corpus_files":int(ncorp),"crash_artifacts":int(ncrash),"timeout_or_oom_artifacts":int(nto),"note":"executions are additional to 'evaluations'; crashes are re-judged by the harness oracle before being reported"}
    json.dump(e,open(p,"w"),indent=1)
except Exception as ex:
    print("could not update evidence:",ex)
PY
if [ $T = diff ]; then
  # what the byte decoder made of the final corpus (generator distribution under coverage feedback)
  $V diff-stats "$C" $ID > $F/diff_stats.json 2>/dev/null
  python3 - "$ID" $F/diff_stats.json <<'PY'
import json,sys,os
ID,st=sys.argv[1:]
p=f"/verif/evidence{'.scratch' if os.environ.get('VERIF_SCRATCH') else ''}/{ID}.json"
try:
    e=json.load(open(p)); d=json.load(open(st))
    e["coverage"]["fuzz_campaign"]["final_corpus"]={"inputs":d["inputs"],"nontrivial_by_the_sub_checks_rule":d["nontrivial"],"oracle_failures":d["oracle_failures"],"classes":d["classes"],"samples":d["samples"][:3]}
    json.dump(e,open(p,"w"),indent=1)
except Exception as ex:
    print("could not add corpus statistics to evidence:",ex)
PY
fi
rc=0
for a in "$A"/crash-*; do
  [ -f "$a" ] || continue
  RD=/verif/replays${VERIF_SCRATCH:+.scratch}/$ID; mkdir -p $RD
  R=$RD/fuzz-$(basename "$a" | cut -c7-18).json
  $V fuzz-case $T "$a" > "$R"
  if grep -q '^null' "$R"; then rm -f "$R"; continue; fi
  out=$($V check $ID --replay "$R" 2>&1); r=$?
  if [ $r -eq 1 ]; then echo "$out" | grep -E "^VIOLATION|^  sub=|^  detail=" | cut -c1-600; rc=1
  else rm -f "$R"; echo "INCONCLUSIVE: libFuzzer crash $(basename $a) not confirmed by the harness oracle (exit $r)"; [ $rc -eq 0 ] && rc=2; fi
done
exit $rc
