#!/usr/bin/env python3
"""Regenerates /verif/MANIFEST.json from the table below (kept in one place so that the file is
always schema-valid).  Run: python3 tools/gen_manifest.py"""
import json, os

CLAIMED = {
 # id: (category, technique, text, note, design_ref)
 "C01": ("exploration", "bounded-exhaustive token/tag sequence enumeration + proptest token soups, mutations and constructive invalid templates against a totality oracle",
         "Every sequence of <=3 (thorough <=4) lexical tokens and <=4 (thorough <=5) whole tags is parsed under three parser configurations; random token soups, 1-3 character-level mutations of generated well-formed templates, forced depth-32 nesting, and constructive invalid templates (a well-formed template plus one unambiguous break: unknown tag/filter, wrong arity, unclosed or mis-nested block incl. inside comment, out-of-range or malformed literal, unterminated string, stray delimiter). Oracle: parse returns Ok or Err with a non-empty message, never panics; constructive invalids must be Err.",
         "Exploration only: absence of a crashing input is not shown beyond the enumerated bound. Nesting depth <= 32.", "4.1"),
 "C03": ("exploration", "proptest-generated template ASTs printed with random trim markers/blanks, compared with a reference interpreter (rule T); exhaustive single-tag marker x whitespace cube",
         "Differential against an independent reference interpreter of text emission, trim markers, raw and comment over generated templates; exhaustive over the 16 marker combinations x whitespace kinds for single tags.",
         "Reference interpreter written from the property statement is trusted; Unicode blanks other than space/tab/CR/LF adjacent to a trimmed side are not asserted.", "4.3"),
 "C05": ("exploration", "bounded-exhaustive loop-header cube and interrupt cube + proptest loop programs against a reference interpreter",
         "Exhaustive cube over length x offset x limit x reversed x for/tablerow(cols) x collection kind, body printing every loop field; objects with several keys by a validity predicate; exhaustive break/continue placement in two nested loops (also inside an included partial); random larger programs. Oracle: reference interpreter.",
         "Reference interpreter trusted; negative offset/limit, interrupts inside tablerow and loops over scalars are outside the statement and not asserted.", "4.5"),
 "C13": ("exploration", "bounded-exhaustive strings x arguments over a 10-symbol alphabet + proptest long strings and filter chains against independent reference implementations and algebraic laws",
         "All strings of length <=3 (thorough <=4) over {a,B,space,LF,tab,comma,<,e-acute,combining mark,emoji} x all argument strings <=2 / integers in [-6,8] for the 26 string filters, a second alphabet of characters whose case mappings change length, literal arguments, compared with reference implementations over Vec<char>; laws split|join, strip=lstrip.rstrip, truncate bound, chain = left-to-right composition; random strings to 200 chars.",
         "Reference implementations written from the filter documentation are trusted; truncate is accepted in either unit (chars or grapheme clusters); downcase is accepted string-level or per character; one known finding (truncate compares byte lengths) is listed in known_findings.json and excluded by exact signature.", "4.13"),
 "C15": ("exploration", "bounded-exhaustive operand grid (integers, numeric strings, floats, every .5 tie) + proptest 64-bit operands against an exact i128 / IEEE-754 reference",
         "Every pair of the 18-value boundary grid in three spellings for the 7 binary math filters, the grid for the unary ones, all k/8 ties for ceil/floor/round; numeric strings in 13 further spellings; random 64-bit and double operands. Oracle: exact i128 arithmetic / bit-identical f64 results computed in the harness; overflow must be Err or a float within a relative error of 2^-51.",
         "Harness build has overflow checks on, so a wrapped result also shows as a panic; rounding of integers beyond 2^53 is not asserted.", "4.15"),
 "C16": ("exploration", "bounded-exhaustive strings over entity/URL/HTML alphabets + proptest fragment soups against safety scans, inverses and independent reference decoders",
         "All strings up to length 4-7 over alphabets that spell every entity, near-entity, percent escape (valid, truncated, invalid UTF-8) and tag fragment; oracles: safety scan + unescape inverse (escape), independent reference (escape_once incl. idempotence, url_decode), charset + round trip (url_encode), no complete tag + subsequence (strip_html).",
         "Exhaustive only up to the stated lengths; the reference decoders written in the harness are trusted.", "4.16"),
 "C17": ("exploration", "stratified enumeration of boundary timestamps x every directive x flag x width + proptest random timestamps/formats against an independent calendar and reference formatter; round-trip, ordering and parser differentials",
         "Reference strftime built on an independent civil-from-days calendar (cross-validated against Python datetime for every day of years 1..9999) compared with the date filter on a stratified slice (quick) / dense slice (thorough) of the timestamp x format grid; print->parse->serde round trips, chronological ordering across offsets, all accepted parser syntaxes.",
         "Flag combinations the directive documentation does not pin are exercised for crashes only; years 1..9999; now/today never generated.", "4.17"),
 "C06": ("exploration", "bounded-exhaustive operator x value-pair table, truthiness table, if/elsif and case/when arm enumerations, and/or pattern enumeration + proptest nested conditionals against a reference interpreter",
         "Every operator x ordered pair of a 36-value pool (literal and variable operands, if and unless), bare truthiness of every value and of undefined names, all if/elsif chains <=4 arms x truth assignments, case/when with overlapping comma/or lists, every and/or pattern <=4 atoms (also with an unevaluable last operand: guard idiom); random nesting. Oracle: reference interpreter with an independent comparison core; cross-kind cells defer to the value model as the statement says.",
         "Cells the statement leaves open (undefined names in comparisons, contains on nil/numbers, bare empty/blank) are not compared.", "4.6"),
 "C07": ("exploration", "bounded-exhaustive path enumeration over tagged nested data + literal sweeps + proptest guided walks against a reference lookup",
         "All paths of <=3 steps from 9 bases over a 43-step pool (dot/bracket keys, every literal index -7..6, indices through variables and nested paths, special names, colliding own keys) over data whose leaves are distinct tagged strings; integer literals at the 64-bit boundaries and a log sweep, decimals, strings in both quote styles (also holding the other quote at their edges, in every literal position), paths under shadowing assign/capture/loop bindings and at the head of a filter chain. Oracle: reference step-by-step lookup: Ok(value) or Err.",
         "Printing objects, integer-looking strings as array indices and .size of non-ASCII strings are not compared.", "4.7"),
 "C04": ("exploration", "bounded-exhaustive program enumeration over a two-name alphabet with lookup probes everywhere + proptest deeper programs against a reference interpreter; caller data deep-compared",
         "Every program of <=2 statements (thorough <=3) from 90 statement forms x 9 caller bindings, with a non-failing probe of every name (distinguishing object-with-member from scalar bindings) before/after every statement and inside bodies and the included partial, plus an unconditional member read after each program; random programs to depth 4 with loop variables named like data. Oracle: reference interpreter with explicit layer order; the caller's Object is compared after each render.",
         "Reference interpreter trusted. Non-triviality (same name bound in >=2 layers) is measured by the interpreter per layer pair and reported in evidence.", "4.4"),
 "C08": ("exploration", "enumerated call-form x partial-behaviour family + proptest caller/partial scenarios (valid, broken, missing, dead paths, dynamic names) against a reference interpreter",
         "Every include/render argument form x 8 partial behaviours x inside/outside a caller loop x caller bindings, dynamic partial names changing per execution of one tag site, missing/broken partials on executed and dead paths; random scenarios with a caller and three partials (acyclic), probes of every name around every call. Oracle: reference interpreter modelling include (shared scope, argument frame, interrupts propagate) and render (arguments only, own assignments may rebind them, counters shared but not readable, interrupts contained).",
         "Reference interpreter trusted; cycle/ifchanged in partials and interrupts at the top level of a render-for partial are not compared.", "4.8"),
 "C09": ("exploration", "bounded-exhaustive render histories over hand-written stateful template families + proptest histories over generated templates; oracle = first occurrence and fresh-parser differential",
         "Every history of <=3 render calls over 6 families of 3 stateful templates x 3 data objects sharing one parser, under each partial compilation policy (cycle, counters, ifchanged, capture failing midway, break/continue, variable range bounds, partials that cycle/assign/break/fail, broken and missing partials); random histories of up to 6 (thorough 10) calls over generated templates. Each call's result must equal its first occurrence and the same call on a freshly built parser; data objects deep-compared.",
         "Differential against the engine itself on a fresh parser (state leaks show as differences); multi-key object iteration never observed; explosive generated programs are discarded by a cost estimate before running.", "4.9"),
 "C10": ("fault_enumeration", "exhaustive enumeration of the failing write call k in 1..W (three failure modes) for hand-written and proptest-generated templates, plus short-count sinks, against a prefix/stop/error oracle",
         "For every template the fault-free run gives W write calls and the byte string S; every k in 1..W is injected as an error, as a one-byte short count followed by an error, and as Ok(0); two never-failing chunked sinks. Checked per injection: render_to returns Err, the sink is not called again, accepted bytes equal the fault-free prefix, no panic; streamed bytes equal render().",
         "Exhaustive over fault points per generated template, templates themselves sampled; ErrorKind::Interrupted (legitimately retried by write_all) is never injected.", "4.10"),
 "C19": ("exploration", "proptest scenarios (valid/broken/absent partials, dynamic names, dead paths) rendered under the three compilation policies; differential between policies, repeat renders and removal of broken partials",
         "Each generated scenario (C08 generator + enumerated call forms) builds eager, lazy and on-demand parsers over the in-memory source and renders the main template 1..3 times interleaved with an unrelated template: build must succeed, status/output must agree across policies and across repeats, replacing a broken partial by an absent one must change nothing.",
         "Differential between the three implementations; error message texts are not compared across policies (within a policy a repeated render must repeat the text).", "4.19"),
 "C11": ("exploration", "bounded-exhaustive ordered pairs of an 81-value pool built three independent ways, through every comparison API form and through templates, recomputed in fresh processes; proptest random recursive pairs",
         "All ordered pairs of the pool (incl. one instant in three offsets, six-key objects, nested containers) checked for reflexivity, symmetry, duality of < and >, <= / >= consistency, equal-never-ordered, int/float equality, agreement of Value / ValueCow / ValueViewCmp / typed PartialEq / template operators, case, contains and uniq, and independence of construction route; the pair matrix is recomputed in 4 fresh processes with different hash seeds.",
         "NaN excluded and transitivity not claimed, as in the statement.", "4.11"),
 "C14": ("exploration", "bounded-exhaustive small arrays over duplicate/nil pools and object pools + proptest long arrays in several initial orders against permutation/order/stability/reference oracles",
         "All arrays of length <=5 over {1,2,2.0,3,nil,nil} and {a,A,b,B,nil}, <=4 over integers that are not doubles, <=3 over nil-member objects, all object arrays of length <=4 with present/absent/nil/false properties, arrays up to 60 elements in random/sorted/reversed/organ-pipe order incl. mixed incomparable kinds. Oracles: permutation by multiset, non-decreasing with nil last, stability against a reference insertion sort, idempotence, reference results for uniq/compact/concat/map/where/first/last/size/slice/join.",
         "For mutually incomparable elements only permutation and absence of failure are claimed (statement).", "4.14"),
 "C18": ("exploration", "bounded-exhaustive operation sequences over the real frame types against an abstract stack-of-maps model (small-scope state-space enumeration) + proptest longer sequences",
         "Every sequence of <=3 (thorough <=4) of 28 operations (push plain/sandboxed scope with each of 9 data maps, push global layer, pop, set_global, set_index) from 3 caller maps, plus strided slices of the next lengths up to 6 and random sequences to 12, executed on StackFrame/SandboxedStackFrame/GlobalFrame over &dyn Runtime with real drops; after each sequence try_get == model for 8 paths, get agrees with try_get, roots() == resolving names, counters == model.",
         "The abstract model (stack of maps with sandbox cut-off, nearest global layer, one counter map) is written from the statement and trusted; exhaustive only up to the stated length.", "4.18"),
 "C12": ("exploration", "proptest recursive data through every view/conversion route with a fingerprint comparison; proptest instances of derived structs rendered through ~150 template probes via derive and via serde plus a field-by-field ObjectView walk; enumerated boundary integers through seven conversion routes and back into every Rust integer type",
         "Each generated datum is observed through &v, ValueCow Owned/Borrowed, to_value, as_view, Some/None, serde to_value/from_value (also into serde_json::Value for kind), JSON and YAML text and must answer type_name, truthy/default/empty/blank, is_*, scalar conversions, structure and printed form identically; struct instances with derive(ObjectView, ValueView, Serialize, Deserialize) must render identically through both routes and agree field by field; integers around i64/u64 limits must be rejected or carried as an equal float, and a Liquid integer moved back into any Rust integer type is rejected or the same number.",
         "Strings spelling the crate's date formats, State markers and NaN are excluded as data; enum *de*serialisation is declined by the crate with an error and is not asserted; floats are restricted to values serde_json parses exactly.", "4.12"),
 "C02": ("exploration", "bounded-exhaustive filter x input-kind x argument-kind cube through real templates, tag attribute cube, strftime format enumeration + proptest random templates on random data; totality oracle (no panic, Ok/Err, UTF-8, render == render_to)",
         "Every filter of the stdlib and of the jekyll/shopify/extra sets (names from the parser's reflection) on every value of a 51-value type-confused pool with every argument tuple of arity <=1 and arity 2 over a sub-pool (thorough, and always for the extended-configuration filters: full pool); every filter on 72 strings of special-casing / 4-byte / combining / Unicode-blank characters; every loop/cycle/include/render/case/counter attribute position over 14 extreme values x 8 collection forms; every strftime format of <=3 (4) symbols incl. non-ASCII, every printable ASCII directive x 13 prefixes x 10 field-edge timestamps; random templates using every construct on random nested data. Oracle: never panics, returns Ok or Err, bytes valid UTF-8, render() == render_to().",
         "Ranges/widths above 10^4 excluded as in the statement; hangs and aborts are handled by the supervisor (stalled case re-run alone: reproducible stall = VIOLATION, otherwise inconclusive); explosive random programs are discarded by a cost estimate.", "4.2"),
 "C20": ("exploration", "randomised multi-thread stress (barrier release, start skews, yield injection, repetitions on fresh parsers) with a sequential oracle",
         "240 enumerated + random scenarios: a shared Parser with an untouched lazy partial store (valid, large, broken, missing partials) and shared parsed templates using cycle/increment/ifchanged/capture/break/include/render; 2..16 threads released by a barrier each perform 3..19 parse/render calls, 20 (thorough 60) repetitions each on a fresh parser. Every concurrent result must equal the same call executed alone on a fresh parser, all threads must finish within 20 s, and the used parser must afterwards answer like a fresh one.",
         "The harness does not own the scheduler: this is stress, not schedule enumeration; races needing a window of a few instructions can be missed. shuttle/loom are cached but would need the crate's Mutex swapped behind a cfg (not done).", "4.20"),
}

NOT_YET = {
}

ALL = ["C%02d" % i for i in range(1, 21)]

def main():
    checks = []
    for pid in ALL:
        if pid in CLAIMED:
            cat, tech, text, note, ref = CLAIMED[pid]
            checks.append({
                "property_id": pid,
                "quick_cmd": f"./check.sh {pid} quick",
                "thorough_cmd": f"./check.sh {pid} thorough",
                "evidence_file": f"/verif/evidence/{pid}.json",
                "replay_cmd_template": f"./check.sh {pid} quick --replay {{path}}",
                "engine": "harness",
                "level_claimed": {"category": cat, "text": text, "design_ref": f"DESIGN.md section {ref}"},
                "level_note": note,
                "technique": tech,
            })
    na = [{"property_id": p, "reason": NOT_YET.get(p, "check not built yet in this round (planned: see DESIGN.md section 4); not claimed until its check runs clean on the unchanged tree")}
          for p in ALL if p not in CLAIMED]
    m = {
        "version": 1,
        "setup_cmd": "cd /verif/harness && CARGO_NET_OFFLINE=true cargo build --offline --profile verif",
        "hooks": {
            "guard": "liquid_rust_verif",
            "enable": "no hooks are needed: every check observes /repo through its public API (path dependency, rebuilt from the working tree by check.sh)",
            "baseline_off_cmd": "cd /repo && cargo test --workspace --no-fail-fast --offline",
            "source_commits": [],
            "add_only": True,
        },
        "engines": [
            {"name": "harness", "path": "/verif/harness", "serves_properties": sorted(CLAIMED.keys()),
             "kind_free_text": "Rust binary: proptest TestRunner (sharded, seeded from VERIF_SEED) + bounded-exhaustive enumerators + reference interpreter/reference filters as oracles; path-depends on /repo"},
        ],
        "checks": checks,
        "not_applicable": na,
        "notes": "All checks: ./check.sh <ID> <quick|thorough> [--replay FILE]; exit 0 held, 1 VIOLATION, 2 inconclusive (never a violation), 3 harness bug. known_findings.json lists fixed/known findings.",
    }
    if not na:
        del m["not_applicable"]
    with open("/verif/MANIFEST.json", "w") as f:
        json.dump(m, f, indent=1)
    print("claimed:", sorted(CLAIMED.keys()))

if __name__ == "__main__":
    main()
