#!/bin/bash
# ./check.sh <ID> <quick|thorough> [--replay FILE]
# Rebuilds the harness against /repo's current working tree (path dependency) and runs one check.
# exit 0 = held on everything explored; 1 = VIOLATION line printed; 2 = inconclusive; 3 = harness bug.
set -u
ID="${1:?property id}"; TIER="${2:-quick}"; shift; shift || true
cd /verif/harness || exit 3
export CARGO_NET_OFFLINE=true
LOG=$(mktemp /verif/harness/.build.XXXXXX.log)
# serialise concurrent builds; cargo itself locks the target dir
if ! cargo build --offline --profile verif >"$LOG" 2>&1; then
  echo "BUILD-FAILED (harness does not compile against the current /repo tree):"
  tail -40 "$LOG"
  rm -f "$LOG"
  exit 2
fi
rm -f "$LOG"
if [ "$TIER" = "thorough" ] && [ $# -eq 0 ] && case "$ID" in C01|C02|C03|C04|C05|C06|C08) true;; *) false;; esac; then
  /verif/harness/target/verif/verif check "$ID" --tier "$TIER"; rc=$?
  [ $rc -eq 0 ] || exit $rc
  # coverage-guided supplement (E6: parse/render targets; E6b: diff target); its findings are re-judged by the harness oracle
  /verif/tools/fuzz.sh "$ID" "${VERIF_FUZZ_SECONDS:-120}"
  exit $?
fi
exec /verif/harness/target/verif/verif check "$ID" --tier "$TIER" "$@"
