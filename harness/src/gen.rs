//! Shared generators: text, value pools, recursive values.

use crate::rv::{fl, st, F, RV};
use proptest::prelude::*;

/// Characters that matter to a Liquid lexer or to Unicode handling.
pub const SPECIAL_CHARS: &[char] = &[
    '{', '}', '%', '-', '|', '\'', '"', '<', '>', '&', ':', ',', '.', '[', ']', '(', ')', '=', '!', ' ', '\t', '\n', '\r', 'a', 'B', 'x', '0', '9', '_',
    'é', '\u{301}', '😀', 'ß', 'İ', '\u{a0}', '\u{2028}', '\u{b}', '\u{c}', '中', '\u{200d}', 'ǆ',
];

/// Any Unicode scalar value, weighted towards ASCII markup characters, blanks, combining marks
/// and astral characters.
pub fn any_char() -> BoxedStrategy<char> {
    prop_oneof![
        6 => proptest::sample::select(SPECIAL_CHARS),
        3 => proptest::char::range('a', 'z'),
        1 => proptest::char::range(' ', '~'),
        1 => proptest::char::any(),
    ]
    .boxed()
}

pub fn text(max: usize) -> BoxedStrategy<String> {
    proptest::collection::vec(any_char(), 0..=max).prop_map(|v| v.into_iter().collect()).boxed()
}

/// Text that can sit outside markup: never contains `{{` or `{%`, never ends with `{`.
pub fn plain_text(max: usize) -> BoxedStrategy<String> {
    text(max).prop_map(|s| sanitize_plain(&s)).boxed()
}

pub fn sanitize_plain(s: &str) -> String {
    let mut out = String::with_capacity(s.len());
    let mut prev = '\0';
    for c in s.chars() {
        if prev == '{' && (c == '{' || c == '%') {
            out.push('}');
            prev = '}';
            continue;
        }
        out.push(c);
        prev = c;
    }
    if out.ends_with('{') {
        out.pop();
        out.push('}');
    }
    out
}

/// The scalar stress pool of DESIGN 3.4.
pub fn stress_scalars() -> Vec<RV> {
    let mut v = vec![RV::Nil, RV::Bool(true), RV::Bool(false)];
    for i in [0i64, 1, -1, 2, 7, 1 << 31, 1 << 53, -(1 << 53), 1 << 62, -(1 << 62), i64::MAX - 1, i64::MAX, i64::MIN, i64::MIN + 1] {
        v.push(RV::Int(i));
    }
    for f in [0.0f64, -0.0, 0.5, 1.0, 1.5, 2.5, -2.5, 1e18, 9007199254740992.0, f64::INFINITY, f64::NEG_INFINITY] {
        v.push(fl(f));
    }
    for s in ["", " ", "\t\n", "a", "B", "10", "1.5", "true", "é", "e\u{301}", "😀", "<&>", "a,b", "%"] {
        v.push(st(s));
    }
    v
}

/// Pool with containers, used for type-confusion cubes.
pub fn stress_values() -> Vec<RV> {
    let mut v = stress_scalars();
    v.push(RV::Arr(vec![]));
    v.push(RV::Arr(vec![RV::Int(1), st("a"), RV::Nil]));
    v.push(RV::Arr(vec![RV::Arr(vec![RV::Int(1)]), RV::Obj(vec![("a".into(), RV::Int(1))])]));
    v.push(RV::Obj(vec![]));
    v.push(RV::Obj(vec![("a".into(), RV::Int(1))]));
    v.push(RV::Empty);
    v.push(RV::Blank);
    v
}

pub fn scalar_rv() -> BoxedStrategy<RV> {
    let pool = stress_scalars();
    prop_oneof![
        4 => proptest::sample::select(pool),
        1 => any::<i64>().prop_map(RV::Int),
        1 => (-1000i64..1000).prop_map(RV::Int),
        1 => any::<f64>().prop_filter("no NaN", |f| !f.is_nan()).prop_map(|f| RV::Float(F(f))),
        1 => text(8).prop_map(RV::Str),
    ]
    .boxed()
}

/// Recursive values: arrays of 0..max_len mixed elements, objects of 0..6 keys.
pub fn value_rv(depth: u32, max_len: usize) -> BoxedStrategy<RV> {
    scalar_rv()
        .prop_recursive(depth, 64, max_len as u32, move |inner| {
            prop_oneof![
                2 => proptest::collection::vec(inner.clone(), 0..=max_len).prop_map(RV::Arr),
                1 => proptest::collection::vec((key_name(), inner), 0..=6).prop_map(|kv| {
                    let mut seen = std::collections::HashSet::new();
                    RV::Obj(kv.into_iter().filter(|(k, _)| seen.insert(k.clone())).collect())
                }),
            ]
        })
        .boxed()
}

pub fn key_name() -> BoxedStrategy<String> {
    proptest::sample::select(vec!["a", "b", "c", "size", "first", "k", "x", "y", "0", "é"]).prop_map(|s| s.to_string()).boxed()
}

/// Globals object with the small variable alphabet bound to random values.
pub fn globals_rv(names: &'static [&'static str], depth: u32, max_len: usize) -> BoxedStrategy<RV> {
    proptest::collection::vec(proptest::option::weighted(0.8, value_rv(depth, max_len)), names.len())
        .prop_map(move |vals| RV::Obj(names.iter().zip(vals).filter_map(|(n, v)| v.map(|v| (n.to_string(), v))).collect()))
        .boxed()
}
