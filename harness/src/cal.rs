//! Independent proleptic-Gregorian calendar (days since 1970-01-01 <-> civil date, weekday,
//! ordinal, Sunday/Monday week numbers, ISO week date).  Algorithms: Howard Hinnant's
//! civil_from_days / days_from_civil; ISO week by the ordinal/weekday formula.

pub fn days_from_civil(y: i64, m: u32, d: u32) -> i64 {
    let y = if m <= 2 { y - 1 } else { y };
    let era = if y >= 0 { y } else { y - 399 } / 400;
    let yoe = y - era * 400;
    let mp = (m as i64 + 9) % 12;
    let doy = (153 * mp + 2) / 5 + d as i64 - 1;
    let doe = yoe * 365 + yoe / 4 - yoe / 100 + doy;
    era * 146097 + doe - 719468
}

pub fn civil_from_days(z: i64) -> (i64, u32, u32) {
    let z = z + 719468;
    let era = if z >= 0 { z } else { z - 146096 } / 146097;
    let doe = z - era * 146097;
    let yoe = (doe - doe / 1460 + doe / 36524 - doe / 146096) / 365;
    let y = yoe + era * 400;
    let doy = doe - (365 * yoe + yoe / 4 - yoe / 100);
    let mp = (5 * doy + 2) / 153;
    let d = (doy - (153 * mp + 2) / 5 + 1) as u32;
    let m = if mp < 10 { mp + 3 } else { mp - 9 } as u32;
    (if m <= 2 { y + 1 } else { y }, m, d)
}

pub fn is_leap(y: i64) -> bool {
    (y % 4 == 0 && y % 100 != 0) || y % 400 == 0
}

/// 0 = Sunday .. 6 = Saturday
pub fn weekday_from_days(z: i64) -> u32 {
    (z + 4).rem_euclid(7) as u32
}

#[derive(Clone, Copy, Debug, PartialEq, Eq)]
pub struct Fields {
    pub year: i64,
    pub month: u32,
    pub day: u32,
    pub hour: u32,
    pub minute: u32,
    pub second: u32,
    pub nanos: u32,
    /// 0 = Sunday
    pub wday: u32,
    /// 1-based day of year
    pub ordinal: u32,
    pub week_sun: u32,
    pub week_mon: u32,
    pub iso_year: i64,
    pub iso_week: u32,
    pub unix: i64,
    /// offset in seconds east of UTC
    pub offset: i32,
}

fn weeks_in_iso_year(y: i64) -> u32 {
    let p = |y: i64| (y + y.div_euclid(4) - y.div_euclid(100) + y.div_euclid(400)).rem_euclid(7);
    if p(y) == 4 || p(y - 1) == 3 { 53 } else { 52 }
}

/// Local calendar fields of the instant `unix` seconds (+nanos) seen at `offset` seconds east.
pub fn fields(unix: i64, nanos: u32, offset: i32) -> Fields {
    let local = unix + offset as i64;
    let days = local.div_euclid(86400);
    let sod = local.rem_euclid(86400) as u32;
    let (year, month, day) = civil_from_days(days);
    let wday = weekday_from_days(days);
    let ordinal = (days - days_from_civil(year, 1, 1) + 1) as u32;
    let yday0 = ordinal - 1;
    let week_sun = (yday0 + 7 - wday) / 7;
    let week_mon = (yday0 + 7 - (wday + 6) % 7) / 7;
    let iso_wd = if wday == 0 { 7 } else { wday };
    let w = (ordinal as i64 - iso_wd as i64 + 10) / 7;
    let (iso_year, iso_week) = if w < 1 {
        (year - 1, weeks_in_iso_year(year - 1))
    } else if w as u32 > weeks_in_iso_year(year) {
        (year + 1, 1)
    } else {
        (year, w as u32)
    };
    Fields { year, month, day, hour: sod / 3600, minute: sod % 3600 / 60, second: sod % 60, nanos, wday, ordinal, week_sun, week_mon, iso_year, iso_week, unix, offset }
}

pub const MONTHS: [&str; 12] = ["January", "February", "March", "April", "May", "June", "July", "August", "September", "October", "November", "December"];
/// index 0 = Sunday
pub const WEEKDAYS: [&str; 7] = ["Sunday", "Monday", "Tuesday", "Wednesday", "Thursday", "Friday", "Saturday"];
