//! Scenarios = main template + partials + data; probes; differential against the reference
//! interpreter with partials (used by C04, C08, C09, C10, C19, C20).

use crate::ast::*;
use crate::engine::{Check, Failure, Obs};
use crate::interp::{self, PartialDef, Stats, Stop};
use crate::lq::{self, Policy};
use crate::rv::RV;
use serde::{Deserialize, Serialize};
use serde_json::json;

#[derive(Clone, Debug, PartialEq, Serialize, Deserialize)]
pub enum PDef {
    Ok(Vec<Node>),
    /// present in the source but does not parse
    Broken,
    /// named by a tag but absent from the source
    Missing,
}

#[derive(Clone, Debug, Serialize, Deserialize)]
pub struct Scenario {
    pub main: Vec<Node>,
    pub partials: Vec<(String, PDef)>,
    pub data: RV,
}

pub const BROKEN_SRC: &str = "before{% if x %}never closed";

impl Scenario {
    pub fn sources(&self) -> Vec<(String, String)> {
        self.partials
            .iter()
            .filter_map(|(n, d)| match d {
                PDef::Ok(b) => Some((n.clone(), print(b))),
                PDef::Broken => Some((n.clone(), BROKEN_SRC.to_string())),
                PDef::Missing => None,
            })
            .collect()
    }
    pub fn defs(&self) -> Vec<(String, PartialDef)> {
        self.partials
            .iter()
            .filter_map(|(n, d)| match d {
                PDef::Ok(b) => Some((n.clone(), PartialDef::Ok(b.clone()))),
                PDef::Broken => Some((n.clone(), PartialDef::Broken)),
                PDef::Missing => None,
            })
            .collect()
    }
    pub fn main_src(&self) -> String {
        print(&self.main)
    }
}

/// `[{% if n.a %}obj:{{ n.a }}{% elsif n %}{{ n }}{% else %}~{% endif %}]` — a lookup that never
/// fails and that tells an object-with-member binding from a scalar one (so that a lookup leaking
/// through a shadowing scalar into an outer object shows).
pub fn probe(name: &str) -> Vec<Node> {
    vec![
        Node::Text("[".into()),
        Node::If {
            arms: vec![
                (Cond::truthy(Expr::path(name, &["a"])), vec![Node::Text("obj:".into()), Node::Out { e: Expr::path(name, &["a"]), filters: vec![], t: Tr::PLAIN }], Tr::PLAIN),
                (Cond::truthy(Expr::var(name)), vec![Node::Out { e: Expr::var(name), filters: vec![], t: Tr::PLAIN }], Tr::PLAIN),
            ],
            else_: Some((vec![Node::Text("~".into())], Tr::PLAIN)),
            close: Tr::PLAIN,
        },
        Node::Text("]".into()),
    ]
}

pub fn probes(names: &[&str]) -> Vec<Node> {
    names.iter().flat_map(|n| probe(n)).collect()
}

/// Insert probes of every name after every statement and at the start of every body.
pub fn with_probes(nodes: &[Node], names: &[&str]) -> Vec<Node> {
    with_probes_inner(nodes, names, true)
}

/// An empty body stays empty (a capture that prints nothing must still bind its name).
fn body_probes(nodes: &[Node], names: &[&str]) -> Vec<Node> {
    if nodes.is_empty() { vec![] } else { with_probes_inner(nodes, names, true) }
}

fn with_probes_inner(nodes: &[Node], names: &[&str], _top: bool) -> Vec<Node> {
    let mut out = probes(names);
    for n in nodes {
        let n = match n.clone() {
            Node::Capture { name, body, open, close } => Node::Capture { name, body: body_probes(&body, names), open, close },
            Node::If { arms, else_, close } => {
                Node::If { arms: arms.into_iter().map(|(c, b, t)| (c, with_probes(&b, names), t)).collect(), else_: else_.map(|(b, t)| (with_probes(&b, names), t)), close }
            }
            Node::Unless { cond, body, else_, open, close } => Node::Unless { cond, body: with_probes(&body, names), else_: else_.map(|(b, t)| (with_probes(&b, names), t)), open, close },
            Node::Case { target, whens, else_, open, close } => Node::Case {
                target,
                whens: whens.into_iter().map(|w| When { body: with_probes(&w.body, names), ..w }).collect(),
                else_: else_.map(|(b, t)| (with_probes(&b, names), t)),
                open,
                close,
            },
            Node::For { var, coll, limit, offset, reversed, body, else_, open, close } => {
                Node::For { var, coll, limit, offset, reversed, body: with_probes(&body, names), else_: else_.map(|(b, t)| (with_probes(&b, names), t)), open, close }
            }
            Node::TableRow { var, coll, cols, limit, offset, body, open, close } => Node::TableRow { var, coll, cols, limit, offset, body: with_probes(&body, names), open, close },
            other => other,
        };
        let is_interrupt = matches!(n, Node::Break(_) | Node::Continue(_));
        out.push(n);
        if !is_interrupt {
            out.extend(probes(names));
        }
    }
    normalize(out)
}

pub type Run = Result<Result<String, String>, crate::engine::Panicked>;

/// Render the scenario's main template with the engine under a partial-compilation policy.
pub fn engine_run(sc: &Scenario, policy: Policy) -> Run {
    let p = match lq::parser_with_partials(policy, &sc.sources())? {
        Ok(p) => p,
        Err(e) => return Ok(Err(format!("build: {e}"))),
    };
    lq::run_rv(&p, &sc.main_src(), &sc.data)
}

pub fn reference_run(sc: &Scenario) -> (Result<String, Stop>, Stats) {
    interp::run(&sc.main, &sc.data, &sc.defs())
}

/// Compare engine (eager policy) with the reference interpreter.
/// Returns the reference's statistics and whether the engine was actually run.
pub fn differential(sc: &Scenario, obs: &mut Obs, what: &str) -> Result<(Stats, bool), Failure> {
    let (expected, stats) = reference_run(sc);
    if expected == Err(Stop::Budget) || (expected.is_err() && !interp::cost_ok(&resolve_trim(&sc.main), &sc.data, &sc.defs())) {
        // explosive program (the reference stopped early, the engine would not): never run it
        obs.class("over_budget_skipped");
        return Ok((stats, false));
    }
    if std::env::var("VERIF_REFONLY").is_ok() {
        println!("REFERENCE: {}", match &expected { Ok(s) => format!("Ok(len {})", s.len()), Err(e) => format!("{e:?}") });
        println!("MAIN: {}", sc.main_src());
        for (n, s) in sc.sources() { println!("PARTIAL {n}: {s}"); }
        println!("DATA: {}", sc.data.dump());
        return Ok((stats, false));
    }
    let before = sc.data.to_object();
    let got = engine_run(sc, Policy::Eager);
    let src = sc.main_src();
    obs.sample_with(|| json!({"main": src, "partials": sc.sources(), "data": sc.data.dump(), "expected": format!("{expected:?}"), "got": lq::show(&got)}));
    let detail = |e: &str, g: &str| format!("main={src:?}\n partials={:?}\n data={}\n expected={e}\n      got={g}", sc.sources(), sc.data.dump());
    let _ = before;
    match (&expected, &got) {
        (_, Err(p)) => Err(Failure::new(format!("{what}: engine panics: {}", p.site()), detail("", &p.what))),
        (Err(Stop::Unsupported(why)), _) => {
            obs.class("unsupported_by_reference");
            obs.class(crate::engine::intern(&format!("unsupported: {}", why.split(' ').take(4).collect::<Vec<_>>().join(" "))));
            Ok((stats, true))
        }
        (Err(Stop::Budget), _) => {
            obs.class("unsupported_by_reference");
            Ok((stats, true))
        }
        (Ok(e), Ok(Ok(g))) => {
            if e == g {
                obs.class("both_ok");
                Ok((stats, true))
            } else {
                Err(Failure::new(format!("{what}: output differs from reference"), detail(&format!("{e:?}"), &format!("{g:?}"))))
            }
        }
        (Err(Stop::Error(_)), Ok(Err(_))) => {
            obs.class("both_err");
            Ok((stats, true))
        }
        (Ok(e), Ok(Err(g))) => Err(Failure::new(format!("{what}: engine fails where reference renders"), detail(&format!("Ok({e:?})"), &format!("Err({g})")))),
        (Err(Stop::Error(e)), Ok(Ok(g))) => Err(Failure::new(format!("{what}: engine renders where reference fails"), detail(&format!("Err({e})"), &format!("Ok({g:?})")))),
    }
}

pub fn check(sc: &Scenario, obs: &mut Obs, what: &str) -> Check {
    differential(sc, obs, what).map(|_| ())
}
