//! Reference interpreter (DESIGN 3.3): deliberately naive tree walk over the AST.
//! Semantics come from the property statements; constructs without reference semantics make the
//! interpreter return `Stop::Unsupported`, in which case the caller does not compare.

use crate::ast::*;
use crate::rv::{F, RV};
use liquid_core::model::ValueViewCmp;
use std::collections::BTreeMap;

#[derive(Clone, Debug, PartialEq)]
pub enum Stop {
    /// the statement says this render fails with an error
    Error(String),
    /// no reference semantics: do not compare
    Unsupported(String),
    /// work/size budget exceeded (generated program is explosive): do not run the engine at all
    Budget,
}

fn err<T>(s: impl Into<String>) -> Result<T, Stop> {
    Err(Stop::Error(s.into()))
}
fn unsup<T>(s: impl Into<String>) -> Result<T, Stop> {
    Err(Stop::Unsupported(s.into()))
}

#[derive(Clone, Debug, PartialEq)]
pub enum PartialDef {
    Ok(Vec<Node>),
    /// source does not parse
    Broken,
}

#[derive(Clone, Copy, Debug, PartialEq, Eq)]
pub enum Flow {
    Normal,
    Break,
    Continue,
}

type Frame = Vec<(String, RV)>;

fn frame_get<'a>(f: &'a Frame, k: &str) -> Option<&'a RV> {
    f.iter().rev().find(|(kk, _)| kk == k).map(|x| &x.1)
}
fn frame_set(f: &mut Frame, k: &str, v: RV) {
    if let Some(slot) = f.iter_mut().find(|(kk, _)| kk == k) {
        slot.1 = v;
    } else {
        f.push((k.to_string(), v));
    }
}

/// Which layer answered a lookup (for C04's non-triviality measure).
#[derive(Clone, Copy, Debug, PartialEq, Eq, Hash, PartialOrd, Ord)]
pub enum Layer {
    Local,
    Global,
    Data,
    Counter,
}

pub struct Scope {
    /// loop / include-argument frames, innermost last
    pub locals: Vec<Frame>,
    /// assign / capture
    pub globals: Frame,
    /// caller data (inside `render`: the explicit arguments)
    pub data: Frame,
    /// inside `render`: counters are still shared through increment/decrement but are not
    /// visible as variables (the sandbox hides every outer name)
    pub isolated: bool,
}

#[derive(Default)]
pub struct Stats {
    /// (answering layer, a lower layer that also binds the name)
    pub shadow_pairs: BTreeMap<(Layer, Layer), u64>,
    pub lookups: u64,
    pub loops_windowed: u64,
    pub interrupts: u64,
    pub partial_calls: u64,
    pub partial_rebinds: u64,
}

pub struct Interp<'a> {
    pub partials: &'a [(String, PartialDef)],
    pub counters: Frame,
    pub out: String,
    pub stats: Stats,
    pub depth: u32,
    pub steps: u64,
    /// cost-estimation mode: constructs without reference semantics are approximated and
    /// errors are ignored; only `Stop::Budget` is meaningful
    pub estimate: bool,
}

pub const MAX_OUT: usize = 1 << 15;
pub const MAX_STEPS: u64 = 40_000;

pub fn run(nodes: &[Node], data: &RV, partials: &[(String, PartialDef)]) -> (Result<String, Stop>, Stats) {
    let tree = resolve_trim(nodes);
    let presolved: Vec<(String, PartialDef)> = partials
        .iter()
        .map(|(n, d)| {
            (
                n.clone(),
                match d {
                    PartialDef::Ok(b) => PartialDef::Ok(resolve_trim(b)),
                    PartialDef::Broken => PartialDef::Broken,
                },
            )
        })
        .collect();
    let mut it = Interp { partials: &presolved, counters: vec![], out: String::new(), stats: Stats::default(), depth: 0, steps: 0, estimate: false };
    let mut scope = Scope {
        locals: vec![],
        globals: vec![],
        data: match data {
            RV::Obj(o) => o.clone(),
            _ => vec![],
        },
        isolated: false,
    };
    let r = match it.exec(&tree, &mut scope) {
        Ok(Flow::Normal) => Ok(()),
        // an interrupt escaping the whole template is outside every statement
        Ok(_) => Err(Stop::Unsupported("interrupt outside any loop".into())),
        Err(e) => Err(e),
    };
    let out = std::mem::take(&mut it.out);
    (r.map(|_| out), it.stats)
}

impl<'a> Interp<'a> {
    // ------------------------------------------------------------------ lookup
    fn root<'s>(&'s mut self, sc: &'s Scope, name: &str) -> Option<&'s RV> {
        self.stats.lookups += 1;
        let mut layers: Vec<(Layer, &RV)> = Vec::new();
        for f in sc.locals.iter().rev() {
            if let Some(v) = frame_get(f, name) {
                layers.push((Layer::Local, v));
            }
        }
        if let Some(v) = frame_get(&sc.globals, name) {
            layers.push((Layer::Global, v));
        }
        if let Some(v) = frame_get(&sc.data, name) {
            layers.push((Layer::Data, v));
        }
        if !sc.isolated {
            if let Some(v) = frame_get(&self.counters, name) {
                layers.push((Layer::Counter, v));
            }
        }
        if layers.len() >= 2 {
            for l in &layers[1..] {
                *self.stats.shadow_pairs.entry((layers[0].0, l.0)).or_insert(0) += 1;
            }
        }
        layers.first().map(|x| x.1)
    }

    /// Strict evaluation: Err where an output tag must fail.
    pub fn eval(&mut self, sc: &Scope, e: &Expr) -> Result<RV, Stop> {
        match e {
            Expr::Lit(l) => lit_value(l),
            Expr::Var(v) => {
                // index expressions first (strict)
                let mut keys = Vec::new();
                for st in &v.steps {
                    match st {
                        Step::Dot(k) => keys.push(RV::Str(k.clone())),
                        Step::Idx(ie) => {
                            let iv = self.eval(sc, ie)?;
                            if !iv.is_scalar() {
                                return err("index is not a scalar");
                            }
                            keys.push(iv);
                        }
                    }
                }
                let Some(mut cur) = self.root(sc, &v.root).cloned() else {
                    return err(format!("unknown variable {}", v.root));
                };
                for k in keys {
                    cur = step(&cur, &k)?;
                }
                Ok(cur)
            }
        }
    }

    /// Lenient evaluation (bare conditions): undefined -> nil.
    fn eval_lenient(&mut self, sc: &Scope, e: &Expr) -> Result<RV, Stop> {
        match self.eval(sc, e) {
            Ok(v) => Ok(v),
            Err(Stop::Error(_)) => Ok(RV::Nil),
            Err(u) => Err(u),
        }
    }

    fn apply_filters(&mut self, sc: &Scope, mut v: RV, fs: &[Flt]) -> Result<RV, Stop> {
        for f in fs {
            let mut args = Vec::new();
            for a in &f.args {
                args.push(self.eval(sc, a)?);
            }
            v = match (f.name.as_str(), args.as_slice()) {
                ("append", [a]) | ("prepend", [a]) => {
                    let (x, y) = (v.render(), a.render());
                    if x.len() + y.len() > MAX_OUT {
                        return Err(Stop::Budget);
                    }
                    if f.name == "append" { RV::Str(format!("{x}{y}")) } else { RV::Str(format!("{y}{x}")) }
                }
                ("upcase", []) => {
                    let s = v.render();
                    if !s.is_ascii() {
                        return unsup("upcase on non-ascii");
                    }
                    RV::Str(s.to_ascii_uppercase())
                }
                ("size", []) => match &v {
                    RV::Arr(a) => RV::Int(a.len() as i64),
                    RV::Obj(o) => RV::Int(o.len() as i64),
                    RV::Nil => RV::Int(0),
                    s if s.is_scalar() => {
                        let t = s.render();
                        if !t.is_ascii() {
                            return unsup("size of non-ascii string (unit ambiguity is C13's subject)");
                        }
                        RV::Int(t.len() as i64)
                    }
                    _ => return unsup("size of state"),
                },
                (n, _) => {
                    if self.estimate {
                        // cost estimate: an unknown filter may grow its input (escape: up to 6x)
                        let r = v.render();
                        if r.len() * 6 > MAX_OUT {
                            return Err(Stop::Budget);
                        }
                        RV::Str(r.repeat(6))
                    } else {
                        return unsup(format!("filter {n} has no reference semantics here"));
                    }
                }
            };
        }
        Ok(v)
    }

    // ------------------------------------------------------------------ conditions
    fn cond(&mut self, sc: &Scope, c: &Cond) -> Result<bool, Stop> {
        for ands in &c.ors {
            let mut all = true;
            for a in ands {
                if !self.atom(sc, a)? {
                    all = false;
                    break;
                }
            }
            if all {
                return Ok(true);
            }
        }
        Ok(false)
    }

    fn atom(&mut self, sc: &Scope, a: &Atom) -> Result<bool, Stop> {
        match a {
            Atom::Truthy(e) => {
                let v = self.eval_lenient(sc, e)?;
                match v {
                    RV::Empty | RV::Blank => unsup("bare empty/blank literal as a condition"),
                    v => Ok(v.truthy()),
                }
            }
            Atom::Cmp(l, op, r) => {
                // undefined names inside comparisons are an unasserted zone (engine errors)
                let lv = match self.eval(sc, l) {
                    Ok(v) => v,
                    Err(Stop::Error(_)) => return unsup("undefined operand in comparison"),
                    Err(u) => return Err(u),
                };
                let rv = match self.eval(sc, r) {
                    Ok(v) => v,
                    Err(Stop::Error(_)) => return unsup("undefined operand in comparison"),
                    Err(u) => return Err(u),
                };
                compare(&lv, op, &rv)
            }
        }
    }

    // ------------------------------------------------------------------ collections
    fn collection(&mut self, sc: &Scope, c: &Coll) -> Result<Vec<RV>, Stop> {
        match c {
            Coll::Expr(e) => {
                let v = match self.eval(sc, e) {
                    Ok(v) => v,
                    Err(Stop::Error(_)) => return unsup("loop over an undefined name"),
                    Err(u) => return Err(u),
                };
                match v {
                    RV::Arr(a) => Ok(a),
                    RV::Obj(o) => Ok(o.into_iter().map(|(k, v)| RV::Arr(vec![RV::Str(k), v])).collect()),
                    RV::Nil => Ok(vec![]),
                    _ => unsup("loop over a scalar"),
                }
            }
            Coll::Range(a, b) => {
                let a = self.int_arg(sc, a)?;
                let b = self.int_arg(sc, b)?;
                if b.saturating_sub(a) > 10_000 {
                    // ranges beyond 10^4 elements are outside every property (unbounded work by design)
                    return Err(Stop::Budget);
                }
                Ok((a..=b).map(RV::Int).collect())
            }
        }
    }

    fn int_arg(&mut self, sc: &Scope, e: &Expr) -> Result<i64, Stop> {
        let v = match self.eval(sc, e) {
            Ok(v) => v,
            Err(Stop::Error(_)) => return unsup("undefined loop attribute"),
            Err(u) => return Err(u),
        };
        match v {
            RV::Int(i) => Ok(i),
            // cost estimate: the engine also accepts strings that spell an integer
            RV::Str(s) if self.estimate && s.parse::<i64>().is_ok() => Ok(s.parse().unwrap()),
            _ => unsup("non-integer loop attribute"),
        }
    }

    fn window(&mut self, sc: &Scope, items: Vec<RV>, limit: &Option<Expr>, offset: &Option<Expr>, reversed: bool) -> Result<Vec<RV>, Stop> {
        let n = items.len();
        let off = match offset {
            Some(e) => {
                let o = self.int_arg(sc, e)?;
                if o < 0 {
                    return unsup("negative offset");
                }
                (o as usize).min(n)
            }
            None => 0,
        };
        let mut w: Vec<RV> = items.into_iter().skip(off).collect();
        if let Some(e) = limit {
            let l = self.int_arg(sc, e)?;
            if l < 0 {
                return unsup("negative limit");
            }
            w.truncate(l as usize);
        }
        if reversed {
            w.reverse();
        }
        if w.len() != n || reversed {
            self.stats.loops_windowed += 1;
        }
        Ok(w)
    }

    // ------------------------------------------------------------------ partials
    fn partial(&self, name: &str, allow_suffix: bool) -> Result<&'a [Node], Stop> {
        let find = |n: &str| self.partials.iter().find(|(pn, _)| pn == n);
        let hit = find(name).or_else(|| if allow_suffix { find(&format!("{name}.liquid")) } else { None });
        match hit {
            None => err(format!("missing partial {name}")),
            Some((_, PartialDef::Broken)) => err(format!("partial {name} does not parse")),
            Some((_, PartialDef::Ok(body))) => Ok(body.as_slice()),
        }
    }

    fn partial_name(&mut self, sc: &Scope, e: &Expr) -> Result<String, Stop> {
        let v = self.eval(sc, e)?;
        match v {
            RV::Str(s) => Ok(s),
            _ => unsup("partial name that is not a string"),
        }
    }

    // ------------------------------------------------------------------ statements
    pub fn exec(&mut self, nodes: &[Node], sc: &mut Scope) -> Result<Flow, Stop> {
        for n in nodes {
            let f = self.node(n, sc)?;
            if f != Flow::Normal {
                return Ok(f);
            }
        }
        Ok(Flow::Normal)
    }

    fn branch(&mut self, body: &[Node], sc: &mut Scope) -> Result<Flow, Stop> {
        self.exec(body, sc)
    }

    fn node(&mut self, n: &Node, sc: &mut Scope) -> Result<Flow, Stop> {
        self.steps += 1;
        if self.steps > MAX_STEPS || self.out.len() > MAX_OUT {
            return Err(Stop::Budget);
        }
        if self.estimate {
            return match self.node_inner(n, sc) {
                Err(Stop::Budget) => Err(Stop::Budget),
                Err(_) => Ok(Flow::Normal),
                ok => ok,
            };
        }
        self.node_inner(n, sc)
    }

    fn node_inner(&mut self, n: &Node, sc: &mut Scope) -> Result<Flow, Stop> {
        match n {
            Node::Text(t) => self.out.push_str(t),
            Node::Raw { body, .. } => self.out.push_str(body),
            Node::Comment { .. } => {}
            Node::Out { e, filters, .. } => {
                let v = self.eval(sc, e)?;
                let v = self.apply_filters(sc, v, filters)?;
                if matches!(v, RV::Obj(_)) || contains_obj(&v) {
                    return unsup("printing an object");
                }
                self.out.push_str(&v.render());
            }
            Node::Assign { name, e, filters, .. } => {
                let v = self.eval(sc, e)?;
                let v = self.apply_filters(sc, v, filters)?;
                frame_set(&mut sc.globals, name, v);
            }
            Node::Capture { name, body, .. } => {
                let saved = std::mem::take(&mut self.out);
                let r = self.exec(body, sc);
                let captured = std::mem::replace(&mut self.out, saved);
                if captured.len() > MAX_OUT / 4 {
                    return Err(Stop::Budget);
                }
                let flow = r?;
                frame_set(&mut sc.globals, name, RV::Str(captured));
                return Ok(flow);
            }
            Node::Incr { name, .. } => {
                let v = match frame_get(&self.counters, name) {
                    Some(RV::Int(i)) => *i,
                    _ => 0,
                };
                self.out.push_str(&v.to_string());
                frame_set(&mut self.counters, name, RV::Int(v + 1));
            }
            Node::Decr { name, .. } => {
                let v = match frame_get(&self.counters, name) {
                    Some(RV::Int(i)) => *i,
                    _ => 0,
                } - 1;
                self.out.push_str(&v.to_string());
                frame_set(&mut self.counters, name, RV::Int(v));
            }
            Node::If { arms, else_, .. } if self.estimate => {
                // cost estimate: a condition the reference cannot decide makes every remaining
                // branch possible; run them all (over-approximation of work and of bindings)
                for (i, (c, body, _)) in arms.iter().enumerate() {
                    match self.cond(sc, c) {
                        Ok(true) => return self.branch(body, sc),
                        Ok(false) => {}
                        Err(Stop::Budget) => return Err(Stop::Budget),
                        Err(_) => {
                            for (_, b, _) in &arms[i..] {
                                self.branch(b, sc)?;
                            }
                            if let Some((b, _)) = else_ {
                                self.branch(b, sc)?;
                            }
                            return Ok(Flow::Normal);
                        }
                    }
                }
                if let Some((body, _)) = else_ {
                    return self.branch(body, sc);
                }
            }
            Node::Unless { cond, body, else_, .. } if self.estimate => {
                match self.cond(sc, cond) {
                    Ok(false) => return self.branch(body, sc),
                    Ok(true) => {
                        if let Some((b, _)) = else_ {
                            return self.branch(b, sc);
                        }
                    }
                    Err(Stop::Budget) => return Err(Stop::Budget),
                    Err(_) => {
                        self.branch(body, sc)?;
                        if let Some((b, _)) = else_ {
                            self.branch(b, sc)?;
                        }
                    }
                }
            }
            Node::Case { whens, else_, .. } if self.estimate => {
                for w in whens {
                    self.branch(&w.body, sc)?;
                }
                if let Some((b, _)) = else_ {
                    self.branch(b, sc)?;
                }
            }
            Node::If { arms, else_, .. } => {
                for (c, body, _) in arms {
                    if self.cond(sc, c)? {
                        return self.branch(body, sc);
                    }
                }
                if let Some((body, _)) = else_ {
                    return self.branch(body, sc);
                }
            }
            Node::Unless { cond, body, else_, .. } => {
                if !self.cond(sc, cond)? {
                    return self.branch(body, sc);
                } else if let Some((body, _)) = else_ {
                    return self.branch(body, sc);
                }
            }
            Node::Case { target, whens, else_, .. } => {
                let t = match self.eval(sc, target) {
                    Ok(v) => v,
                    Err(Stop::Error(_)) => return unsup("case on undefined"),
                    Err(u) => return Err(u),
                };
                for w in whens {
                    for v in &w.values {
                        let vv = match self.eval(sc, v) {
                            Ok(v) => v,
                            Err(Stop::Error(_)) => return unsup("when on undefined"),
                            Err(u) => return Err(u),
                        };
                        if compare(&t, "==", &vv)? {
                            return self.branch(&w.body, sc);
                        }
                    }
                }
                if let Some((body, _)) = else_ {
                    return self.branch(body, sc);
                }
            }
            Node::For { var, coll, limit, offset, reversed, body, else_, .. } => {
                let items = self.collection(sc, coll)?;
                let w = self.window(sc, items, limit, offset, *reversed)?;
                if w.is_empty() {
                    if let Some((body, _)) = else_ {
                        return self.branch(body, sc);
                    }
                    return Ok(Flow::Normal);
                }
                let parent = self.root(sc, "forloop").cloned();
                let len = w.len();
                for (i, item) in w.into_iter().enumerate() {
                    let mut fl = forloop_fields(i, len);
                    fl.push(("parentloop".into(), parent.clone().unwrap_or(RV::Nil)));
                    sc.locals.push(vec![("forloop".into(), RV::Obj(fl)), (var.clone(), item)]);
                    let r = self.exec(body, sc);
                    sc.locals.pop();
                    match r? {
                        Flow::Break => {
                            self.stats.interrupts += 1;
                            break;
                        }
                        Flow::Continue => {
                            self.stats.interrupts += 1;
                        }
                        Flow::Normal => {}
                    }
                }
            }
            Node::TableRow { var, coll, cols, limit, offset, body, .. } => {
                let items = self.collection(sc, coll)?;
                let w = self.window(sc, items, limit, offset, false)?;
                let len = w.len();
                let cols = match cols {
                    Some(e) => {
                        let c = self.int_arg(sc, e)?;
                        if c <= 0 {
                            return unsup("non-positive cols");
                        }
                        c as usize
                    }
                    None => len,
                };
                for (i, item) in w.into_iter().enumerate() {
                    let col = i % cols;
                    let row = i / cols;
                    let mut tr = forloop_fields(i, len);
                    let last = i + 1 == len;
                    tr.push(("col0".into(), RV::Int(col as i64)));
                    tr.push(("col".into(), RV::Int(col as i64 + 1)));
                    tr.push(("col_first".into(), RV::Bool(col == 0)));
                    tr.push(("col_last".into(), RV::Bool(col + 1 == cols || last)));
                    if col == 0 {
                        self.out.push_str(&format!("<tr class=\"row{}\">", row + 1));
                    }
                    self.out.push_str(&format!("<td class=\"col{}\">", col + 1));
                    sc.locals.push(vec![("tablerow".into(), RV::Obj(tr)), (var.clone(), item)]);
                    let r = self.exec(body, sc);
                    sc.locals.pop();
                    if r? != Flow::Normal {
                        return unsup("interrupt inside tablerow");
                    }
                    self.out.push_str("</td>");
                    if col + 1 == cols || last {
                        self.out.push_str("</tr>");
                    }
                }
            }
            Node::Break(_) => return Ok(Flow::Break),
            Node::Continue(_) => return Ok(Flow::Continue),
            Node::Cycle { values, .. } => {
                if self.estimate {
                    let mut longest = String::new();
                    for v in values {
                        if let Ok(x) = self.eval(sc, v) {
                            let r = x.render();
                            if r.len() > longest.len() {
                                longest = r;
                            }
                        }
                    }
                    self.out.push_str(&longest);
                } else {
                    return unsup("cycle");
                }
            }
            Node::IfChanged { body, .. } => {
                if self.estimate {
                    return self.exec(body, sc);
                }
                return unsup("ifchanged");
            }
            Node::Include { name, args, .. } => {
                let pname = self.partial_name(sc, name)?;
                let mut frame = Frame::new();
                for (k, e) in args {
                    let v = self.eval(sc, e)?;
                    frame_set(&mut frame, k, v);
                }
                let body = self.partial(&pname, false)?;
                self.stats.partial_calls += 1;
                if self.depth > 8 {
                    return unsup("partial recursion");
                }
                self.depth += 1;
                sc.locals.push(frame);
                let r = self.exec(body, sc);
                sc.locals.pop();
                self.depth -= 1;
                return r;
            }
            Node::Render { name, form, args, .. } => {
                let pname = self.partial_name(sc, name)?;
                let mut frame = Frame::new();
                if let RenderForm::With(e, k) = form {
                    let v = self.eval(sc, e)?;
                    frame_set(&mut frame, k, v);
                }
                let mut iter: Option<(Vec<RV>, &String)> = None;
                if let RenderForm::For(c, k) = form {
                    iter = Some((self.collection(sc, c)?, k));
                }
                self.stats.partial_calls += 1;
                if self.depth > 8 {
                    return unsup("partial recursion");
                }
                match iter {
                    None => {
                        for (k, e) in args {
                            let v = self.eval(sc, e)?;
                            frame_set(&mut frame, k, v);
                        }
                        let body = self.partial(&pname, true)?;
                        // the arguments are what the partial starts from; its own assignments may rebind them
                        let mut inner = Scope { locals: vec![], globals: vec![], data: frame, isolated: true };
                        self.depth += 1;
                        let r = self.exec(body, &mut inner);
                        self.depth -= 1;
                        r?; // interrupts never reach the caller
                    }
                    Some((items, k)) => {
                        let len = items.len();
                        for (i, item) in items.into_iter().enumerate() {
                            let mut f = Frame::new();
                            for (ak, e) in args {
                                let v = self.eval(sc, e)?;
                                frame_set(&mut f, ak, v);
                            }
                            frame_set(&mut f, "forloop", RV::Obj({
                                let mut fl = forloop_fields(i, len);
                                fl.push(("parentloop".into(), RV::Nil));
                                fl
                            }));
                            frame_set(&mut f, k, item);
                            let body = self.partial(&pname, true)?;
                            let mut inner = Scope { locals: vec![], globals: vec![], data: f, isolated: true };
                            self.depth += 1;
                            let r = self.exec(body, &mut inner);
                            self.depth -= 1;
                            if r? != Flow::Normal {
                                return unsup("interrupt at top level of a render-for partial");
                            }
                        }
                    }
                }
            }
        }
        Ok(Flow::Normal)
    }
}

fn contains_obj(v: &RV) -> bool {
    match v {
        RV::Obj(_) => true,
        RV::Arr(a) => a.iter().any(contains_obj),
        _ => false,
    }
}

pub fn forloop_fields(i: usize, len: usize) -> Vec<(String, RV)> {
    let i = i as i64;
    let len = len as i64;
    vec![
        ("length".into(), RV::Int(len)),
        ("index0".into(), RV::Int(i)),
        ("index".into(), RV::Int(i + 1)),
        ("rindex0".into(), RV::Int(len - i - 1)),
        ("rindex".into(), RV::Int(len - i)),
        ("first".into(), RV::Bool(i == 0)),
        ("last".into(), RV::Bool(i == len - 1)),
    ]
}

pub fn lit_value(l: &Lit) -> Result<RV, Stop> {
    Ok(match l {
        Lit::Nil => RV::Nil,
        Lit::Bool(b) => RV::Bool(*b),
        Lit::Int(i) => RV::Int(*i),
        Lit::Float(s) => match s.parse::<f64>() {
            Ok(f) => RV::Float(F(f)),
            Err(_) => return unsup("bad float literal"),
        },
        Lit::Str(s, _) => RV::Str(s.clone()),
        Lit::Empty => RV::Empty,
        Lit::Blank => RV::Blank,
    })
}

/// One path step (C07): object member by key, array element by index / first / last / size.
pub fn step(cur: &RV, k: &RV) -> Result<RV, Stop> {
    match cur {
        RV::Obj(o) => {
            let key = match k {
                RV::Str(s) => s.clone(),
                RV::Int(i) => i.to_string(),
                _ => return unsup("object key that is neither string nor integer"),
            };
            if let Some((_, v)) = o.iter().find(|(kk, _)| *kk == key) {
                Ok(v.clone())
            } else if key == "size" {
                Ok(RV::Int(o.len() as i64))
            } else {
                err(format!("no member {key}"))
            }
        }
        RV::Arr(a) => match k {
            RV::Int(i) => {
                let n = a.len() as i64;
                let idx = if *i < 0 { n + *i } else { *i };
                if idx >= 0 && idx < n {
                    Ok(a[idx as usize].clone())
                } else {
                    err(format!("index {i} out of range"))
                }
            }
            RV::Str(s) => match s.as_str() {
                "first" => a.first().cloned().ok_or_else(|| Stop::Error("first of empty".into())),
                "last" => a.last().cloned().ok_or_else(|| Stop::Error("last of empty".into())),
                "size" => Ok(RV::Int(a.len() as i64)),
                other => {
                    if other.parse::<i64>().is_ok() {
                        unsup("integer-looking string as array index")
                    } else {
                        err(format!("no array member {other}"))
                    }
                }
            },
            _ => unsup("array index that is neither integer nor string"),
        },
        RV::Str(s) => match k {
            RV::Str(key) if key == "size" => {
                if s.is_ascii() {
                    Ok(RV::Int(s.len() as i64))
                } else {
                    unsup("size of non-ascii string through a path")
                }
            }
            _ => err("step into a string"),
        },
        RV::Int(_) | RV::Float(_) | RV::Bool(_) => match k {
            RV::Str(key) if key == "size" => unsup("size of a non-string scalar through a path"),
            _ => err("step into a scalar"),
        },
        RV::Nil | RV::Empty | RV::Blank => err("step into nil"),
    }
}

/// Independent core of equality/ordering; None = defer to the value model.
fn core_eq(a: &RV, b: &RV) -> Option<bool> {
    Some(match (a, b) {
        (RV::Nil, RV::Nil) => true,
        (RV::Int(x), RV::Int(y)) => x == y,
        (RV::Float(x), RV::Float(y)) => x.0 == y.0,
        (RV::Int(x), RV::Float(y)) | (RV::Float(y), RV::Int(x)) => (*x as f64) == y.0,
        (RV::Str(x), RV::Str(y)) => x == y,
        (RV::Bool(x), RV::Bool(y)) => x == y,
        (RV::Arr(x), RV::Arr(y)) => {
            if x.len() != y.len() {
                return Some(false);
            }
            for (p, q) in x.iter().zip(y) {
                if !core_eq(p, q)? {
                    return Some(false);
                }
            }
            true
        }
        _ => return None,
    })
}

fn core_cmp(a: &RV, b: &RV) -> Option<Option<std::cmp::Ordering>> {
    Some(match (a, b) {
        (RV::Int(x), RV::Int(y)) => x.partial_cmp(y),
        (RV::Float(x), RV::Float(y)) => x.0.partial_cmp(&y.0),
        (RV::Int(x), RV::Float(y)) => (*x as f64).partial_cmp(&y.0),
        (RV::Float(x), RV::Int(y)) => x.0.partial_cmp(&(*y as f64)),
        (RV::Str(x), RV::Str(y)) => x.partial_cmp(y),
        _ => return None,
    })
}

pub fn model_eq(a: &RV, b: &RV) -> bool {
    let (va, vb) = (a.to_value(), b.to_value());
    ValueViewCmp::new(&va) == ValueViewCmp::new(&vb)
}
pub fn model_cmp(a: &RV, b: &RV) -> Option<std::cmp::Ordering> {
    let (va, vb) = (a.to_value(), b.to_value());
    ValueViewCmp::new(&va).partial_cmp(&ValueViewCmp::new(&vb))
}

/// `a OP b` per C06: independent core where one exists, the value model elsewhere.
pub fn compare(a: &RV, op: &str, b: &RV) -> Result<bool, Stop> {
    use std::cmp::Ordering::*;
    let eq = || core_eq(a, b).unwrap_or_else(|| model_eq(a, b));
    let cmp = || core_cmp(a, b).unwrap_or_else(|| model_cmp(a, b));
    Ok(match op {
        "==" => eq(),
        "!=" | "<>" => !eq(),
        "<" => cmp() == Some(Less),
        ">" => cmp() == Some(Greater),
        "<=" => matches!(cmp(), Some(Less) | Some(Equal)),
        ">=" => matches!(cmp(), Some(Greater) | Some(Equal)),
        "contains" => match a {
            RV::Str(s) => match b {
                RV::Str(t) => s.contains(t.as_str()),
                RV::Int(_) | RV::Float(_) | RV::Bool(_) => s.contains(&b.render()),
                _ => return unsup("string contains non-scalar"),
            },
            RV::Arr(items) => {
                let mut hit = false;
                for x in items {
                    if core_eq(x, b).unwrap_or_else(|| model_eq(x, b)) {
                        hit = true;
                        break;
                    }
                }
                hit
            }
            RV::Obj(o) => match b {
                RV::Str(k) => o.iter().any(|(kk, _)| kk == k),
                RV::Int(_) | RV::Float(_) | RV::Bool(_) => {
                    let k = b.render();
                    o.iter().any(|(kk, _)| *kk == k)
                }
                _ => false,
            },
            RV::Int(_) | RV::Float(_) | RV::Bool(_) => return unsup("contains on a non-string scalar"),
            RV::Nil | RV::Empty | RV::Blank => return unsup("contains on nil"),
        },
        _ => return unsup(format!("operator {op}")),
    })
}


/// Cost estimate for engine-only properties: false if the program is explosive (output or
/// captured strings beyond the budget, or too many steps).  Approximates constructs that have no
/// reference semantics; never used as an oracle.
pub fn cost_ok(nodes: &[Node], data: &RV, partials: &[(String, PartialDef)]) -> bool {
    let mut it = Interp { partials, counters: vec![], out: String::new(), stats: Stats::default(), depth: 0, steps: 0, estimate: true };
    let mut scope = Scope {
        locals: vec![],
        globals: vec![],
        data: match data {
            RV::Obj(o) => o.clone(),
            _ => vec![],
        },
        isolated: false,
    };
    !matches!(it.exec(nodes, &mut scope), Err(Stop::Budget))
}
