//! Template AST, printer (with layout: trim markers and inner blanks), trim resolution (rule T)
//! and helpers.  The reference interpreter is in `interp.rs`.

use serde::{Deserialize, Serialize};

/// Layout of one delimiter pair: `{%- x -%}` / `{{- x -}}`.
#[derive(Clone, Copy, Debug, PartialEq, Eq, Hash, Default, Serialize, Deserialize)]
pub struct Tr {
    /// `-` on the opening delimiter (strips whitespace to the left of the tag)
    pub l: bool,
    /// `-` on the closing delimiter (strips whitespace to the right of the tag)
    pub r: bool,
    /// blanks after the opening delimiter (0..3)
    pub pl: u8,
    /// blanks before the closing delimiter (0..3)
    pub pr: u8,
}

impl Tr {
    pub const PLAIN: Tr = Tr { l: false, r: false, pl: 1, pr: 1 };
    pub fn new(l: bool, r: bool) -> Tr {
        Tr { l, r, pl: 1, pr: 1 }
    }
}

#[derive(Clone, Debug, PartialEq, Serialize, Deserialize)]
pub enum Lit {
    Nil,
    Bool(bool),
    Int(i64),
    /// literal text of a decimal, e.g. "-1.50"
    Float(String),
    /// content and whether double quotes are used
    Str(String, bool),
    Empty,
    Blank,
}

#[derive(Clone, Debug, PartialEq, Serialize, Deserialize)]
pub enum Step {
    /// `.key`
    Dot(String),
    /// `[expr]`
    Idx(Expr),
}

#[derive(Clone, Debug, PartialEq, Serialize, Deserialize)]
pub struct Var {
    pub root: String,
    pub steps: Vec<Step>,
}

#[derive(Clone, Debug, PartialEq, Serialize, Deserialize)]
pub enum Expr {
    Lit(Lit),
    Var(Var),
}

impl Expr {
    pub fn var(name: &str) -> Expr {
        Expr::Var(Var { root: name.to_string(), steps: vec![] })
    }
    pub fn path(name: &str, keys: &[&str]) -> Expr {
        Expr::Var(Var { root: name.to_string(), steps: keys.iter().map(|k| Step::Dot(k.to_string())).collect() })
    }
    pub fn int(i: i64) -> Expr {
        Expr::Lit(Lit::Int(i))
    }
    pub fn str(s: &str) -> Expr {
        Expr::Lit(Lit::Str(s.to_string(), s.contains('\'')))
    }
}

#[derive(Clone, Debug, PartialEq, Serialize, Deserialize)]
pub struct Flt {
    pub name: String,
    pub args: Vec<Expr>,
}

#[derive(Clone, Debug, PartialEq, Serialize, Deserialize)]
pub enum Atom {
    Truthy(Expr),
    /// operator text: == != <> < > <= >= contains
    Cmp(Expr, String, Expr),
}

/// `a and b or c and d`  ==  (a and b) or (c and d)
#[derive(Clone, Debug, PartialEq, Serialize, Deserialize)]
pub struct Cond {
    pub ors: Vec<Vec<Atom>>,
}

impl Cond {
    pub fn atom(a: Atom) -> Cond {
        Cond { ors: vec![vec![a]] }
    }
    pub fn truthy(e: Expr) -> Cond {
        Cond::atom(Atom::Truthy(e))
    }
    pub fn lit(b: bool) -> Cond {
        Cond::truthy(Expr::Lit(Lit::Bool(b)))
    }
}

#[derive(Clone, Debug, PartialEq, Serialize, Deserialize)]
pub enum Coll {
    Expr(Expr),
    Range(Expr, Expr),
}

#[derive(Clone, Debug, PartialEq, Serialize, Deserialize)]
pub enum RenderForm {
    Plain,
    /// `with e as k`
    With(Expr, String),
    /// `for coll as k`
    For(Coll, String),
}

#[derive(Clone, Debug, PartialEq, Serialize, Deserialize)]
pub struct When {
    pub values: Vec<Expr>,
    /// join values with ` or ` instead of `, `
    pub use_or: bool,
    pub body: Vec<Node>,
    pub t: Tr,
}

#[derive(Clone, Debug, PartialEq, Serialize, Deserialize)]
pub enum Node {
    Text(String),
    Out { e: Expr, filters: Vec<Flt>, t: Tr },
    Assign { name: String, e: Expr, filters: Vec<Flt>, t: Tr },
    Capture { name: String, body: Vec<Node>, open: Tr, close: Tr },
    Incr { name: String, t: Tr },
    Decr { name: String, t: Tr },
    If { arms: Vec<(Cond, Vec<Node>, Tr)>, else_: Option<(Vec<Node>, Tr)>, close: Tr },
    Unless { cond: Cond, body: Vec<Node>, else_: Option<(Vec<Node>, Tr)>, open: Tr, close: Tr },
    Case { target: Expr, whens: Vec<When>, else_: Option<(Vec<Node>, Tr)>, open: Tr, close: Tr },
    For { var: String, coll: Coll, limit: Option<Expr>, offset: Option<Expr>, reversed: bool, body: Vec<Node>, else_: Option<(Vec<Node>, Tr)>, open: Tr, close: Tr },
    TableRow { var: String, coll: Coll, cols: Option<Expr>, limit: Option<Expr>, offset: Option<Expr>, body: Vec<Node>, open: Tr, close: Tr },
    Break(Tr),
    Continue(Tr),
    Cycle { group: Option<String>, values: Vec<Expr>, t: Tr },
    IfChanged { body: Vec<Node>, open: Tr, close: Tr },
    Raw { body: String, open: Tr, close: Tr },
    /// body is literal source text (never interpreted)
    Comment { body: String, open: Tr, close: Tr },
    Include { name: Expr, args: Vec<(String, Expr)>, t: Tr },
    Render { name: Expr, form: RenderForm, args: Vec<(String, Expr)>, t: Tr },
}

// ---------------------------------------------------------------------------------------------
// printer

pub fn print_lit(l: &Lit) -> String {
    match l {
        Lit::Nil => "nil".into(),
        Lit::Bool(b) => b.to_string(),
        Lit::Int(i) => i.to_string(),
        Lit::Float(s) => s.clone(),
        Lit::Str(s, dq) => {
            if *dq {
                format!("\"{s}\"")
            } else {
                format!("'{s}'")
            }
        }
        Lit::Empty => "empty".into(),
        Lit::Blank => "blank".into(),
    }
}

pub fn print_expr(e: &Expr) -> String {
    match e {
        Expr::Lit(l) => print_lit(l),
        Expr::Var(v) => {
            let mut s = v.root.clone();
            for st in &v.steps {
                match st {
                    Step::Dot(k) => {
                        s.push('.');
                        s.push_str(k);
                    }
                    Step::Idx(e) => {
                        s.push('[');
                        s.push_str(&print_expr(e));
                        s.push(']');
                    }
                }
            }
            s
        }
    }
}

pub fn print_filters(fs: &[Flt]) -> String {
    let mut s = String::new();
    for f in fs {
        s.push_str(" | ");
        s.push_str(&f.name);
        if !f.args.is_empty() {
            s.push_str(": ");
            s.push_str(&f.args.iter().map(print_expr).collect::<Vec<_>>().join(", "));
        }
    }
    s
}

pub fn print_cond(c: &Cond) -> String {
    c.ors
        .iter()
        .map(|ands| {
            ands.iter()
                .map(|a| match a {
                    Atom::Truthy(e) => print_expr(e),
                    Atom::Cmp(l, op, r) => format!("{} {} {}", print_expr(l), op, print_expr(r)),
                })
                .collect::<Vec<_>>()
                .join(" and ")
        })
        .collect::<Vec<_>>()
        .join(" or ")
}

pub fn print_coll(c: &Coll) -> String {
    match c {
        Coll::Expr(e) => print_expr(e),
        Coll::Range(a, b) => format!("({}..{})", print_expr(a), print_expr(b)),
    }
}

fn blanks(n: u8) -> &'static str {
    match n {
        0 => "",
        1 => " ",
        2 => "  ",
        _ => "   ",
    }
}

fn tag(out: &mut String, t: &Tr, content: &str) {
    out.push_str("{%");
    if t.l {
        out.push('-');
    }
    out.push_str(blanks(t.pl));
    out.push_str(content);
    out.push_str(blanks(t.pr));
    if t.r {
        out.push('-');
    }
    out.push_str("%}");
}

fn output(out: &mut String, t: &Tr, content: &str) {
    out.push_str("{{");
    if t.l {
        out.push('-');
    }
    // `{{-1}}` would read as a trim marker followed by 1
    if !t.l && t.pl == 0 && content.starts_with('-') {
        out.push(' ');
    }
    out.push_str(blanks(t.pl));
    out.push_str(content);
    out.push_str(blanks(t.pr));
    if t.r {
        out.push('-');
    }
    out.push_str("}}");
}

fn args_text(args: &[(String, Expr)], sep: &str) -> String {
    args.iter().map(|(k, v)| format!("{k}: {}", print_expr(v))).collect::<Vec<_>>().join(sep)
}

pub fn print(nodes: &[Node]) -> String {
    let mut s = String::new();
    print_into(nodes, &mut s);
    s
}

pub fn print_into(nodes: &[Node], s: &mut String) {
    for n in nodes {
        match n {
            Node::Text(t) => s.push_str(t),
            Node::Out { e, filters, t } => output(s, t, &format!("{}{}", print_expr(e), print_filters(filters))),
            Node::Assign { name, e, filters, t } => tag(s, t, &format!("assign {name} = {}{}", print_expr(e), print_filters(filters))),
            Node::Capture { name, body, open, close } => {
                tag(s, open, &format!("capture {name}"));
                print_into(body, s);
                tag(s, close, "endcapture");
            }
            Node::Incr { name, t } => tag(s, t, &format!("increment {name}")),
            Node::Decr { name, t } => tag(s, t, &format!("decrement {name}")),
            Node::If { arms, else_, close } => {
                for (i, (c, body, t)) in arms.iter().enumerate() {
                    tag(s, t, &format!("{} {}", if i == 0 { "if" } else { "elsif" }, print_cond(c)));
                    print_into(body, s);
                }
                if let Some((body, t)) = else_ {
                    tag(s, t, "else");
                    print_into(body, s);
                }
                tag(s, close, "endif");
            }
            Node::Unless { cond, body, else_, open, close } => {
                tag(s, open, &format!("unless {}", print_cond(cond)));
                print_into(body, s);
                if let Some((body, t)) = else_ {
                    tag(s, t, "else");
                    print_into(body, s);
                }
                tag(s, close, "endunless");
            }
            Node::Case { target, whens, else_, open, close } => {
                tag(s, open, &format!("case {}", print_expr(target)));
                for w in whens {
                    let vals = w.values.iter().map(print_expr).collect::<Vec<_>>().join(if w.use_or { " or " } else { ", " });
                    tag(s, &w.t, &format!("when {vals}"));
                    print_into(&w.body, s);
                }
                if let Some((body, t)) = else_ {
                    tag(s, t, "else");
                    print_into(body, s);
                }
                tag(s, close, "endcase");
            }
            Node::For { var, coll, limit, offset, reversed, body, else_, open, close } => {
                let mut h = format!("for {var} in {}", print_coll(coll));
                if *reversed {
                    h.push_str(" reversed");
                }
                if let Some(l) = limit {
                    h.push_str(&format!(" limit:{}", print_expr(l)));
                }
                if let Some(o) = offset {
                    h.push_str(&format!(" offset:{}", print_expr(o)));
                }
                tag(s, open, &h);
                print_into(body, s);
                if let Some((body, t)) = else_ {
                    tag(s, t, "else");
                    print_into(body, s);
                }
                tag(s, close, "endfor");
            }
            Node::TableRow { var, coll, cols, limit, offset, body, open, close } => {
                let mut h = format!("tablerow {var} in {}", print_coll(coll));
                if let Some(c) = cols {
                    h.push_str(&format!(" cols:{}", print_expr(c)));
                }
                if let Some(l) = limit {
                    h.push_str(&format!(" limit:{}", print_expr(l)));
                }
                if let Some(o) = offset {
                    h.push_str(&format!(" offset:{}", print_expr(o)));
                }
                tag(s, open, &h);
                print_into(body, s);
                tag(s, close, "endtablerow");
            }
            Node::Break(t) => tag(s, t, "break"),
            Node::Continue(t) => tag(s, t, "continue"),
            Node::Cycle { group, values, t } => {
                let vals = values.iter().map(print_expr).collect::<Vec<_>>().join(", ");
                match group {
                    Some(g) => tag(s, t, &format!("cycle {g}: {vals}")),
                    None => tag(s, t, &format!("cycle {vals}")),
                }
            }
            Node::IfChanged { body, open, close } => {
                tag(s, open, "ifchanged");
                print_into(body, s);
                tag(s, close, "endifchanged");
            }
            Node::Raw { body, open, close } => {
                tag(s, open, "raw");
                s.push_str(body);
                tag(s, close, "endraw");
            }
            Node::Comment { body, open, close } => {
                tag(s, open, "comment");
                s.push_str(body);
                tag(s, close, "endcomment");
            }
            Node::Include { name, args, t } => {
                let mut h = format!("include {}", print_expr(name));
                if !args.is_empty() {
                    h.push(' ');
                    h.push_str(&args_text(args, ", "));
                }
                tag(s, t, &h);
            }
            Node::Render { name, form, args, t } => {
                let mut h = format!("render {}", print_expr(name));
                match form {
                    RenderForm::Plain => {}
                    RenderForm::With(e, k) => h.push_str(&format!(" with {} as {k}", print_expr(e))),
                    RenderForm::For(c, k) => h.push_str(&format!(" for {} as {k}", print_coll(c))),
                }
                if !args.is_empty() {
                    h.push_str(", ");
                    h.push_str(&args_text(args, ", "));
                }
                tag(s, t, &h);
            }
        }
    }
}

// ---------------------------------------------------------------------------------------------
// normalisation + rule T (trim resolution)

/// Merge adjacent Text nodes and drop empty ones (recursively), so that every Text node is
/// delimited by tags (or the template boundary) on both sides.
pub fn normalize(nodes: Vec<Node>) -> Vec<Node> {
    let mut out: Vec<Node> = Vec::with_capacity(nodes.len());
    for n in nodes {
        let n = match n {
            Node::Text(t) => {
                if t.is_empty() {
                    continue;
                }
                if let Some(Node::Text(prev)) = out.last_mut() {
                    prev.push_str(&t);
                    continue;
                }
                Node::Text(t)
            }
            Node::Capture { name, body, open, close } => Node::Capture { name, body: normalize(body), open, close },
            Node::If { arms, else_, close } => Node::If {
                arms: arms.into_iter().map(|(c, b, t)| (c, normalize(b), t)).collect(),
                else_: else_.map(|(b, t)| (normalize(b), t)),
                close,
            },
            Node::Unless { cond, body, else_, open, close } => Node::Unless { cond, body: normalize(body), else_: else_.map(|(b, t)| (normalize(b), t)), open, close },
            Node::Case { target, whens, else_, open, close } => Node::Case {
                target,
                whens: whens.into_iter().map(|w| When { body: normalize(w.body), ..w }).collect(),
                else_: else_.map(|(b, t)| (normalize(b), t)),
                open,
                close,
            },
            Node::For { var, coll, limit, offset, reversed, body, else_, open, close } => {
                Node::For { var, coll, limit, offset, reversed, body: normalize(body), else_: else_.map(|(b, t)| (normalize(b), t)), open, close }
            }
            Node::TableRow { var, coll, cols, limit, offset, body, open, close } => Node::TableRow { var, coll, cols, limit, offset, body: normalize(body), open, close },
            Node::IfChanged { body, open, close } => Node::IfChanged { body: normalize(body), open, close },
            other => other,
        };
        out.push(n);
    }
    out
}

/// The characters a trim marker removes (property C03: spaces, tabs, line breaks).
pub fn is_trim_ws(c: char) -> bool {
    c == ' ' || c == '\t' || c == '\n' || c == '\r'
}

enum Ev<'a> {
    Text(&'a mut String),
    /// a delimiter pair: (strips to its left, strips to its right)
    Delim(bool, bool),
}

fn events<'a>(nodes: &'a mut [Node], ev: &mut Vec<Ev<'a>>) {
    for n in nodes.iter_mut() {
        match n {
            Node::Text(t) => ev.push(Ev::Text(t)),
            Node::Out { t, .. }
            | Node::Assign { t, .. }
            | Node::Incr { t, .. }
            | Node::Decr { t, .. }
            | Node::Break(t)
            | Node::Continue(t)
            | Node::Cycle { t, .. }
            | Node::Include { t, .. }
            | Node::Render { t, .. } => ev.push(Ev::Delim(t.l, t.r)),
            Node::Capture { body, open, close, .. } | Node::IfChanged { body, open, close } | Node::TableRow { body, open, close, .. } => {
                ev.push(Ev::Delim(open.l, open.r));
                events(body, ev);
                ev.push(Ev::Delim(close.l, close.r));
            }
            Node::If { arms, else_, close } => {
                for (_, body, t) in arms.iter_mut() {
                    ev.push(Ev::Delim(t.l, t.r));
                    events(body, ev);
                }
                if let Some((body, t)) = else_ {
                    ev.push(Ev::Delim(t.l, t.r));
                    events(body, ev);
                }
                ev.push(Ev::Delim(close.l, close.r));
            }
            Node::Unless { body, else_, open, close, .. } | Node::For { body, else_, open, close, .. } => {
                ev.push(Ev::Delim(open.l, open.r));
                events(body, ev);
                if let Some((body, t)) = else_ {
                    ev.push(Ev::Delim(t.l, t.r));
                    events(body, ev);
                }
                ev.push(Ev::Delim(close.l, close.r));
            }
            Node::Case { whens, else_, open, close, .. } => {
                ev.push(Ev::Delim(open.l, open.r));
                for w in whens.iter_mut() {
                    ev.push(Ev::Delim(w.t.l, w.t.r));
                    events(&mut w.body, ev);
                }
                if let Some((body, t)) = else_ {
                    ev.push(Ev::Delim(t.l, t.r));
                    events(body, ev);
                }
                ev.push(Ev::Delim(close.l, close.r));
            }
            Node::Raw { body, open, close } => {
                ev.push(Ev::Delim(open.l, open.r));
                ev.push(Ev::Text(body));
                ev.push(Ev::Delim(close.l, close.r));
            }
            Node::Comment { open, close, .. } => {
                // the body emits nothing; only the outer sides of the pair matter
                ev.push(Ev::Delim(open.l, false));
                ev.push(Ev::Delim(false, close.r));
            }
        }
    }
}

/// Rule T: returns a copy of the (normalized) tree in which every Text node (and raw body) holds
/// the text *as it must be emitted*: a `-` on the delimiter side facing it removes the maximal
/// run of whitespace touching that side, and nothing else.
pub fn resolve_trim(nodes: &[Node]) -> Vec<Node> {
    let mut tree = nodes.to_vec();
    {
        let mut ev = Vec::new();
        events(&mut tree, &mut ev);
        let flags: Vec<Option<(bool, bool)>> = ev.iter().map(|e| if let Ev::Delim(l, r) = e { Some((*l, *r)) } else { None }).collect();
        for (i, e) in ev.iter_mut().enumerate() {
            if let Ev::Text(t) = e {
                let trim_left = i > 0 && matches!(flags[i - 1], Some((_, true)));
                let trim_right = i + 1 < flags.len() && matches!(flags[i + 1], Some((true, _)));
                if trim_left {
                    let s = t.trim_start_matches(is_trim_ws).to_string();
                    **t = s;
                }
                if trim_right {
                    let s = t.trim_end_matches(is_trim_ws).to_string();
                    **t = s;
                }
            }
        }
    }
    tree
}

/// Count nodes (for size bounds and statistics).
pub fn size(nodes: &[Node]) -> usize {
    nodes
        .iter()
        .map(|n| {
            1 + match n {
                Node::Capture { body, .. } | Node::IfChanged { body, .. } | Node::TableRow { body, .. } => size(body),
                Node::If { arms, else_, .. } => arms.iter().map(|a| size(&a.1)).sum::<usize>() + else_.as_ref().map(|e| size(&e.0)).unwrap_or(0),
                Node::Unless { body, else_, .. } | Node::For { body, else_, .. } => size(body) + else_.as_ref().map(|e| size(&e.0)).unwrap_or(0),
                Node::Case { whens, else_, .. } => whens.iter().map(|w| size(&w.body)).sum::<usize>() + else_.as_ref().map(|e| size(&e.0)).unwrap_or(0),
                _ => 0,
            }
        })
        .sum()
}
