//! Byte-driven twin of `astgen`: the same template shapes, decoded from a fuzzer's byte string
//! through `arbitrary::Unstructured` instead of drawn from proptest's RNG (engine E6b: libFuzzer
//! drives the reference-interpreter differential of C03-C08 with coverage feedback; a mutation of
//! the bytes is a local mutation of the template, which the proptest pass-through RNG could not
//! give, see DESIGN A.7).
//!
//! Soundness rule: every function here mirrors the `astgen` function of the same name — same
//! alphabets, same size bounds, same post-processing (`prune`, `normalize`, `fix_interrupts`,
//! `close_quotes_in_lookalikes`) — so a decoded template lies inside the envelope that the proptest
//! tiers already exercise by the million; only the *distribution* differs (it is whatever the
//! coverage feedback selects).  When the bytes run out every choice falls back to its first
//! alternative (Unstructured answers zeros), which ends the template.

use crate::ast::*;
use crate::astgen::{self, GenCfg, COMMENT_BODIES, MAX_NODES, RAW_ENDLIKE, RAW_LOOKALIKES};
use crate::gen;
use arbitrary::Unstructured;

pub struct Dec<'a> {
    pub u: Unstructured<'a>,
}

impl<'a> Dec<'a> {
    pub fn new(bytes: &'a [u8]) -> Self {
        Dec { u: Unstructured::new(bytes) }
    }
    pub fn below(&mut self, n: usize) -> usize {
        if n <= 1 {
            return 0;
        }
        self.u.int_in_range(0..=(n - 1)).unwrap_or(0)
    }
    pub fn range(&mut self, lo: i64, hi_excl: i64) -> i64 {
        self.u.int_in_range(lo..=(hi_excl - 1)).unwrap_or(lo)
    }
    pub fn flag(&mut self) -> bool {
        self.below(2) == 1
    }
    /// true with probability pct/100 under uniform bytes
    pub fn pct(&mut self, pct: usize) -> bool {
        self.below(100) < pct
    }
    pub fn pick<T: Clone>(&mut self, v: &[T]) -> T {
        v[self.below(v.len())].clone()
    }
    /// index chosen by weight
    pub fn weighted(&mut self, weights: &[u32]) -> usize {
        let total: u32 = weights.iter().sum();
        let mut r = self.below(total as usize) as u32;
        for (i, w) in weights.iter().enumerate() {
            if r < *w {
                return i;
            }
            r -= *w;
        }
        0
    }
    pub fn empty(&self) -> bool {
        self.u.is_empty()
    }

    // ---- text

    pub fn any_char(&mut self) -> char {
        match self.weighted(&[6, 3, 1, 1]) {
            0 => self.pick(gen::SPECIAL_CHARS),
            1 => (b'a' + self.below(26) as u8) as char,
            2 => (b' ' + self.below(95) as u8) as char,
            _ => {
                let raw = self.u.int_in_range(0u32..=0x10ffff).unwrap_or(0x61);
                char::from_u32(raw).unwrap_or('\u{fffd}')
            }
        }
    }
    pub fn text(&mut self, max: usize) -> String {
        let n = self.below(max + 1);
        (0..n).map(|_| self.any_char()).collect()
    }
    pub fn plain_text(&mut self, max: usize) -> String {
        let t = self.text(max);
        gen::sanitize_plain(&t)
    }
    pub fn ws_run(&mut self) -> String {
        const WS: &[&str] = &[" ", "\t", "\n", "\r", "\r\n", "x", "é", " ", "\n", "\u{a0}", "\u{2028}", "\u{85}", "\u{c}", "\u{3000}"];
        let n = self.below(5);
        (0..n).map(|_| self.pick(WS)).collect::<Vec<_>>().concat()
    }
    pub fn word(&mut self) -> String {
        self.pick(&["a", "b ", " c", "\n", "d e", " ", "-", "<p>", "é", "{", "}"]).to_string()
    }
    pub fn text_node(&mut self, cfg: &GenCfg) -> Node {
        if cfg.unicode_text {
            let (t, a, b) = (self.plain_text(12), self.ws_run(), self.ws_run());
            Node::Text(gen::sanitize_plain(&format!("{a}{t}{b}")))
        } else {
            let w = self.word();
            Node::Text(gen::sanitize_plain(&w))
        }
    }
    pub fn raw_body(&mut self) -> String {
        let n = self.below(4);
        let mut v = Vec::new();
        for _ in 0..n {
            v.push(match self.weighted(&[4, 4, 2, 1]) {
                0 => self.pick(RAW_LOOKALIKES).to_string(),
                1 => self.plain_text(6).replace("endraw", "endra_"),
                2 => self.ws_run(),
                _ => self.pick(RAW_ENDLIKE).to_string(),
            });
        }
        // the concatenation of pieces must not spell the end tag either
        astgen::close_quotes_in_lookalikes(v.concat())
    }
    pub fn comment_body(&mut self) -> String {
        match self.weighted(&[3, 1, 1]) {
            0 => self.pick(COMMENT_BODIES).to_string(),
            1 => self.plain_text(10),
            _ => {
                let (a, b, c) = (self.pick(COMMENT_BODIES), self.plain_text(5), self.pick(COMMENT_BODIES));
                format!("{a}{b}{c}")
            }
        }
    }

    // ---- expressions

    pub fn tr(&mut self, layout: bool) -> Tr {
        if layout {
            Tr { l: self.flag(), r: self.flag(), pl: self.below(4) as u8, pr: self.below(4) as u8 }
        } else {
            Tr::PLAIN
        }
    }
    pub fn name(&mut self, names: &[&'static str]) -> String {
        self.pick(names).to_string()
    }
    pub fn lit_simple(&mut self) -> Lit {
        match self.weighted(&[3, 2, 1, 1, 1]) {
            0 => Lit::Int(self.range(-3, 12)),
            1 => Lit::Str(self.pick(&["a", "b", "", " ", "1", "x y"]).to_string(), false),
            2 => Lit::Bool(self.flag()),
            3 => Lit::Nil,
            _ => Lit::Float(self.pick(&["1.5", "0.0", "-2.25", "2.0"]).to_string()),
        }
    }
    pub fn expr(&mut self, cfg: &GenCfg) -> Expr {
        let mut all_names = cfg.names.clone();
        all_names.extend(cfg.loopvars.iter());
        match self.weighted(&[3, 3, 1, 1]) {
            0 => Expr::Lit(self.lit_simple()),
            1 => Expr::Var(Var { root: self.name(&all_names), steps: vec![] }),
            2 => {
                let root = self.name(&all_names);
                let mut steps = Vec::new();
                if cfg.paths {
                    for _ in 0..self.below(3) {
                        steps.push(match self.weighted(&[3, 2, 1]) {
                            0 => Step::Dot(self.pick(&["a", "b", "size", "first", "last"]).to_string()),
                            1 => Step::Idx(Expr::int(self.range(-3, 4))),
                            _ => Step::Idx(Expr::str(self.pick(&["a", "b"]))),
                        });
                    }
                }
                Expr::Var(Var { root, steps })
            }
            _ => {
                if cfg.forloop_refs {
                    Expr::path("forloop", &[self.pick(&["index", "index0", "rindex", "rindex0", "first", "last", "length"])])
                } else {
                    Expr::Lit(self.lit_simple())
                }
            }
        }
    }
    pub fn filters(&mut self, cfg: &GenCfg) -> Vec<Flt> {
        if cfg.filters.is_empty() {
            return vec![];
        }
        let n = self.below(3);
        (0..n)
            .map(|_| {
                let (name, arity) = self.pick(&cfg.filters);
                let args = (0..arity).map(|_| self.expr(cfg)).collect();
                Flt { name: name.to_string(), args }
            })
            .collect()
    }
    pub fn atom(&mut self, cfg: &GenCfg) -> Atom {
        if cfg.ops.is_empty() {
            return Atom::Truthy(self.expr(cfg));
        }
        match self.weighted(&[2, 3]) {
            0 => Atom::Truthy(self.expr(cfg)),
            _ => {
                let l = self.expr(cfg);
                let op = self.pick(&cfg.ops).to_string();
                let r = self.expr(cfg);
                Atom::Cmp(l, op, r)
            }
        }
    }
    pub fn cond(&mut self, cfg: &GenCfg) -> Cond {
        let n_or = 1 + self.below(2);
        Cond {
            ors: (0..n_or)
                .map(|_| {
                    let n_and = 1 + self.below(2);
                    (0..n_and).map(|_| self.atom(cfg)).collect()
                })
                .collect(),
        }
    }
    pub fn coll(&mut self, cfg: &GenCfg) -> Coll {
        match self.weighted(&[3, 2, 1]) {
            0 => Coll::Expr(Expr::var(&self.name(&cfg.coll_names))),
            1 => Coll::Range(Expr::int(self.range(0, 3)), Expr::int(self.range(0, 5))),
            _ => {
                if cfg.wild_ranges {
                    Coll::Range(self.expr(cfg), self.expr(cfg))
                } else {
                    Coll::Range(Expr::int(self.range(0, 3)), Expr::int(self.range(0, 5)))
                }
            }
        }
    }
    pub fn small_attr(&mut self) -> Option<Expr> {
        if self.pct(35) {
            Some(Expr::int(self.range(0, 6)))
        } else {
            None
        }
    }
    fn args(&mut self, cfg: &GenCfg) -> Vec<(String, Expr)> {
        let n = self.below(3);
        let v = (0..n).map(|_| (self.name(&cfg.names), self.expr(cfg))).collect();
        astgen::dedup_args(v)
    }

    // ---- nodes

    fn leaf(&mut self, cfg: &GenCfg) -> Node {
        // the same weighted menu as astgen::leaf
        #[derive(Clone, Copy)]
        enum K {
            Text,
            Out,
            Assign,
            Incr,
            Decr,
            Break,
            Continue,
            Cycle,
            Raw,
            Comment,
            Include,
            Render,
        }
        let mut menu: Vec<(u32, K)> = vec![(4, K::Text)];
        if cfg.out {
            menu.push((4, K::Out));
        }
        if cfg.assign {
            menu.push((2, K::Assign));
        }
        if cfg.counters {
            menu.push((1, K::Incr));
            menu.push((1, K::Decr));
        }
        if cfg.interrupts {
            menu.push((1, K::Break));
            menu.push((1, K::Continue));
        }
        if cfg.cycle {
            menu.push((1, K::Cycle));
        }
        if cfg.raw {
            menu.push((1, K::Raw));
        }
        if cfg.comment {
            menu.push((1, K::Comment));
        }
        if cfg.include && !cfg.partials.is_empty() {
            menu.push((2, K::Include));
        }
        if cfg.render && !cfg.partials.is_empty() {
            menu.push((2, K::Render));
        }
        let ws: Vec<u32> = menu.iter().map(|m| m.0).collect();
        let k = menu[self.weighted(&ws)].1;
        match k {
            K::Text => self.text_node(cfg),
            K::Out => Node::Out { e: self.expr(cfg), filters: self.filters(cfg), t: self.tr(cfg.layout) },
            K::Assign => Node::Assign { name: self.name(&cfg.names), e: self.expr(cfg), filters: self.filters(cfg), t: self.tr(cfg.layout) },
            K::Incr => Node::Incr { name: self.name(&cfg.names), t: self.tr(cfg.layout) },
            K::Decr => Node::Decr { name: self.name(&cfg.names), t: self.tr(cfg.layout) },
            K::Break => Node::Break(self.tr(cfg.layout)),
            K::Continue => Node::Continue(self.tr(cfg.layout)),
            K::Cycle => {
                let group = if self.pct(40) { Some(self.pick(&["g", "h", "'q'"]).to_string()) } else { None };
                let n = 1 + self.below(3);
                Node::Cycle { group, values: (0..n).map(|_| self.expr(cfg)).collect(), t: self.tr(cfg.layout) }
            }
            K::Raw => Node::Raw { body: self.raw_body(), open: self.tr(cfg.layout), close: self.tr(cfg.layout) },
            K::Comment => Node::Comment { body: self.comment_body(), open: self.tr(cfg.layout), close: self.tr(cfg.layout) },
            K::Include => {
                let n = self.pick(&cfg.partials);
                Node::Include { name: Expr::str(&n), args: self.args(cfg), t: self.tr(cfg.layout) }
            }
            K::Render => {
                let n = self.pick(&cfg.partials);
                let form = match self.weighted(&[3, 1, 1]) {
                    0 => RenderForm::Plain,
                    1 => RenderForm::With(self.expr(cfg), self.name(&cfg.names)),
                    _ => RenderForm::For(self.coll(cfg), self.name(&cfg.names)),
                };
                Node::Render { name: Expr::str(&n), form, args: self.args(cfg), t: self.tr(cfg.layout) }
            }
        }
    }

    fn body(&mut self, cfg: &GenCfg, depth: u32, budget: &mut usize) -> Vec<Node> {
        let n = self.below(4);
        (0..n).filter_map(|_| self.node(cfg, depth, budget)).collect()
    }

    fn else_(&mut self, cfg: &GenCfg, depth: u32, budget: &mut usize) -> Option<(Vec<Node>, Tr)> {
        if self.pct(40) {
            Some((self.body(cfg, depth, budget), self.tr(cfg.layout)))
        } else {
            None
        }
    }

    /// One node; `depth` = how many more block levels may open below it.
    fn node(&mut self, cfg: &GenCfg, depth: u32, budget: &mut usize) -> Option<Node> {
        if *budget == 0 {
            return None;
        }
        *budget -= 1;
        #[derive(Clone, Copy)]
        enum B {
            If,
            Unless,
            Case,
            For,
            TableRow,
            Capture,
            IfChanged,
        }
        let mut menu: Vec<(u32, B)> = Vec::new();
        if cfg.conditionals {
            menu.push((3, B::If));
            menu.push((1, B::Unless));
        }
        if cfg.case {
            menu.push((1, B::Case));
        }
        if cfg.loops {
            menu.push((3, B::For));
        }
        if cfg.tablerow {
            menu.push((1, B::TableRow));
        }
        if cfg.capture {
            menu.push((1, B::Capture));
        }
        if cfg.ifchanged {
            menu.push((1, B::IfChanged));
        }
        // a block with probability 1/2 while depth and bytes remain (astgen's prop_recursive
        // decides this through its size budget)
        if depth == 0 || menu.is_empty() || self.empty() || !self.flag() {
            return Some(self.leaf(cfg));
        }
        let ws: Vec<u32> = menu.iter().map(|m| m.0).collect();
        let b = menu[self.weighted(&ws)].1;
        let d = depth - 1;
        Some(match b {
            B::If => {
                let n = 1 + self.below(2);
                let arms = (0..n).map(|_| (self.cond(cfg), self.body(cfg, d, budget), self.tr(cfg.layout))).collect();
                Node::If { arms, else_: self.else_(cfg, d, budget), close: self.tr(cfg.layout) }
            }
            B::Unless => Node::Unless { cond: self.cond(cfg), body: self.body(cfg, d, budget), else_: self.else_(cfg, d, budget), open: self.tr(cfg.layout), close: self.tr(cfg.layout) },
            B::Case => {
                let target = self.expr(cfg);
                let n = 1 + self.below(2);
                let whens = (0..n)
                    .map(|_| {
                        let nv = 1 + self.below(2);
                        When { values: (0..nv).map(|_| self.expr(cfg)).collect(), use_or: self.flag(), body: self.body(cfg, d, budget), t: self.tr(cfg.layout) }
                    })
                    .collect();
                Node::Case { target, whens, else_: self.else_(cfg, d, budget), open: self.tr(cfg.layout), close: self.tr(cfg.layout) }
            }
            B::For => Node::For {
                var: self.name(&cfg.loopvars),
                coll: self.coll(cfg),
                limit: self.small_attr(),
                offset: self.small_attr(),
                reversed: self.flag(),
                body: self.body(cfg, d, budget),
                else_: self.else_(cfg, d, budget),
                open: self.tr(cfg.layout),
                close: self.tr(cfg.layout),
            },
            B::TableRow => Node::TableRow {
                var: self.name(&cfg.loopvars),
                coll: self.coll(cfg),
                cols: if self.flag() { Some(Expr::int(self.range(1, 4))) } else { None },
                limit: self.small_attr(),
                offset: self.small_attr(),
                body: self.body(cfg, d, budget),
                open: self.tr(cfg.layout),
                close: self.tr(cfg.layout),
            },
            B::Capture => Node::Capture { name: self.name(&cfg.names), body: self.body(cfg, d, budget), open: self.tr(cfg.layout), close: self.tr(cfg.layout) },
            B::IfChanged => Node::IfChanged { body: self.body(cfg, d, budget), open: self.tr(cfg.layout), close: self.tr(cfg.layout) },
        })
    }

    /// Twin of `astgen::nodes`: 1..=max_top top-level nodes, at most MAX_NODES nodes in all, the same
    /// post-processing.
    pub fn nodes(&mut self, cfg: &GenCfg, max_top: usize) -> Vec<Node> {
        let n = 1 + self.below(max_top);
        let mut budget = MAX_NODES;
        let v: Vec<Node> = (0..n).filter_map(|_| self.node(cfg, cfg.depth, &mut budget)).collect();
        let mut b2 = MAX_NODES;
        astgen::fix_interrupts(normalize(astgen::prune(v, &mut b2)), cfg.top_level_interrupts)
    }
}
