//! proptest strategies producing template ASTs (by construction; no rejection on hot paths).

use crate::ast::*;
use crate::gen;
use proptest::prelude::*;

pub const NAMES: &[&str] = &["x", "y", "z"];
pub const LOOPVARS: &[&str] = &["i", "j", "x"];

#[derive(Clone, Debug)]
pub struct GenCfg {
    pub names: Vec<&'static str>,
    pub loopvars: Vec<&'static str>,
    pub depth: u32,
    /// random trim markers / blanks (false: `Tr::PLAIN`)
    pub layout: bool,
    /// full-unicode text segments (false: short ASCII words)
    pub unicode_text: bool,
    pub out: bool,
    pub assign: bool,
    pub capture: bool,
    pub counters: bool,
    pub conditionals: bool,
    pub case: bool,
    pub loops: bool,
    pub tablerow: bool,
    pub interrupts: bool,
    pub cycle: bool,
    pub ifchanged: bool,
    pub raw: bool,
    pub comment: bool,
    /// names of partials that may be included / rendered
    pub partials: Vec<String>,
    pub include: bool,
    pub render: bool,
    /// filters allowed on outputs/assigns (name, arity)
    pub filters: Vec<(&'static str, usize)>,
    /// allow path steps in variables
    pub paths: bool,
    /// 0..=100: how often an Out reads a name that may be undefined (-> render error)
    pub undefined_pct: u32,
    /// allow `forloop.*` reads in expressions
    pub forloop_refs: bool,
    /// names that hold collections (used as loop sources)
    pub coll_names: Vec<&'static str>,
    /// ranges whose bounds are arbitrary expressions
    pub wild_ranges: bool,
    /// comparison operators used in conditions
    pub ops: Vec<&'static str>,
    /// keep break/continue at the top level of the generated body (bodies of partials that are
    /// included from inside a caller's loop)
    pub top_level_interrupts: bool,
}

impl GenCfg {
    pub fn all() -> GenCfg {
        GenCfg {
            names: NAMES.to_vec(),
            loopvars: LOOPVARS.to_vec(),
            depth: 3,
            layout: true,
            unicode_text: false,
            out: true,
            assign: true,
            capture: true,
            counters: true,
            conditionals: true,
            case: true,
            loops: true,
            tablerow: true,
            interrupts: true,
            cycle: true,
            ifchanged: true,
            raw: true,
            comment: true,
            partials: vec![],
            include: false,
            render: false,
            filters: vec![("append", 1), ("upcase", 0), ("size", 0)],
            paths: true,
            undefined_pct: 3,
            forloop_refs: true,
            coll_names: NAMES.to_vec(),
            wild_ranges: true,
            ops: vec!["==", "!=", "<>", "<", ">", "<=", ">=", "contains"],
            top_level_interrupts: false,
        }
    }
}

pub fn tr(layout: bool) -> BoxedStrategy<Tr> {
    if layout {
        (any::<bool>(), any::<bool>(), 0u8..=3, 0u8..=3).prop_map(|(l, r, pl, pr)| Tr { l, r, pl, pr }).boxed()
    } else {
        Just(Tr::PLAIN).boxed()
    }
}

pub fn select_name(names: &[&'static str]) -> BoxedStrategy<String> {
    proptest::sample::select(names.to_vec()).prop_map(|s| s.to_string()).boxed()
}

pub fn lit_simple() -> BoxedStrategy<Lit> {
    prop_oneof![
        3 => (-3i64..12).prop_map(Lit::Int),
        2 => proptest::sample::select(vec!["a", "b", "", " ", "1", "x y"]).prop_map(|s| Lit::Str(s.to_string(), false)),
        1 => any::<bool>().prop_map(Lit::Bool),
        1 => Just(Lit::Nil),
        1 => proptest::sample::select(vec!["1.5", "0.0", "-2.25", "2.0"]).prop_map(|s| Lit::Float(s.to_string())),
    ]
    .boxed()
}

pub fn expr(cfg: &GenCfg) -> BoxedStrategy<Expr> {
    let mut all_names = cfg.names.clone();
    all_names.extend(cfg.loopvars.iter());
    let var = select_name(&all_names);
    let paths = cfg.paths;
    let steps = if paths {
        proptest::collection::vec(
            prop_oneof![
                3 => proptest::sample::select(vec!["a", "b", "size", "first", "last"]).prop_map(|k| Step::Dot(k.to_string())),
                2 => (-3i64..4).prop_map(|i| Step::Idx(Expr::int(i))),
                1 => proptest::sample::select(vec!["a", "b"]).prop_map(|k| Step::Idx(Expr::str(k))),
            ],
            0..3,
        )
        .boxed()
    } else {
        Just(vec![]).boxed()
    };
    prop_oneof![
        3 => lit_simple().prop_map(Expr::Lit),
        3 => var.clone().prop_map(|root| Expr::Var(Var { root, steps: vec![] })),
        1 => (var, steps).prop_map(|(root, steps)| Expr::Var(Var { root, steps })),
        1 => if cfg.forloop_refs {
            proptest::sample::select(vec!["index", "index0", "rindex", "rindex0", "first", "last", "length"]).prop_map(|k| Expr::path("forloop", &[k])).boxed()
        } else {
            lit_simple().prop_map(Expr::Lit).boxed()
        },
    ]
    .boxed()
}

pub fn filters(cfg: &GenCfg) -> BoxedStrategy<Vec<Flt>> {
    if cfg.filters.is_empty() {
        return Just(vec![]).boxed();
    }
    let fs = cfg.filters.clone();
    let e = expr(cfg);
    proptest::collection::vec((proptest::sample::select(fs), proptest::collection::vec(e, 2)), 0..3)
        .prop_map(|v| v.into_iter().map(|((name, arity), args)| Flt { name: name.to_string(), args: args.into_iter().take(arity).collect() }).collect())
        .boxed()
}

pub fn atom(cfg: &GenCfg) -> BoxedStrategy<Atom> {
    let e = expr(cfg);
    if cfg.ops.is_empty() {
        // bare (lenient) conditions only
        return e.prop_map(Atom::Truthy).boxed();
    }
    prop_oneof![
        2 => e.clone().prop_map(Atom::Truthy),
        3 => (e.clone(), proptest::sample::select(cfg.ops.clone()), e).prop_map(|(l, op, r)| Atom::Cmp(l, op.to_string(), r)),
    ]
    .boxed()
}

pub fn cond(cfg: &GenCfg) -> BoxedStrategy<Cond> {
    proptest::collection::vec(proptest::collection::vec(atom(cfg), 1..3), 1..3).prop_map(|ors| Cond { ors }).boxed()
}

pub fn coll(cfg: &GenCfg) -> BoxedStrategy<Coll> {
    let e = expr(cfg);
    let wild = if cfg.wild_ranges {
        (e.clone(), e).prop_map(|(a, b)| Coll::Range(a, b)).boxed()
    } else {
        (0i64..3, 0i64..5).prop_map(|(a, b)| Coll::Range(Expr::int(a), Expr::int(b))).boxed()
    };
    prop_oneof![
        3 => select_name(&cfg.coll_names).prop_map(|n| Coll::Expr(Expr::var(&n))),
        2 => (0i64..3, 0i64..5).prop_map(|(a, b)| Coll::Range(Expr::int(a), Expr::int(b))),
        1 => wild,
    ]
    .boxed()
}

pub fn small_attr() -> BoxedStrategy<Option<Expr>> {
    proptest::option::weighted(0.35, (0i64..6).prop_map(Expr::int)).boxed()
}

pub fn word() -> BoxedStrategy<String> {
    proptest::sample::select(vec!["a", "b ", " c", "\n", "d e", " ", "-", "<p>", "é", "{", "}"]).prop_map(|s| s.to_string()).boxed()
}

pub fn text_node(cfg: &GenCfg) -> BoxedStrategy<Node> {
    if cfg.unicode_text {
        (gen::plain_text(12), ws_run(), ws_run()).prop_map(|(t, a, b)| Node::Text(gen::sanitize_plain(&format!("{a}{t}{b}")))).boxed()
    } else {
        word().prop_map(|w| Node::Text(gen::sanitize_plain(&w))).boxed()
    }
}

/// 0..4 whitespace characters of every kind (plus the occasional non-blank)
pub fn ws_run() -> BoxedStrategy<String> {
    proptest::collection::vec(proptest::sample::select(vec![" ", "\t", "\n", "\r", "\r\n", "x", "é", " ", "\n", "\u{a0}", "\u{2028}", "\u{85}", "\u{c}", "\u{3000}"]), 0..=4).prop_map(|v| v.concat()).boxed()
}

pub const RAW_LOOKALIKES: &[&str] = &["{{ x }}", "{% if %}", "{{", "{% endif", "{%- x -%}", "{{- y -}}", "{% assign x = 1 %}", "{% comment %}", "{% endfor %}", "}}", "%}", "{% if x", "{{ x |"];

/// An end-tag look-alike that carries arguments is documented (escape_liquid) not to close the
/// block: it is part of the verbatim body.
pub const RAW_ENDLIKE: &[&str] = &["{% endraw x %}", "{%- endraw 1 -%}", "{% endraw | x %}"];

pub fn raw_body() -> BoxedStrategy<String> {
    proptest::collection::vec(
        prop_oneof![
            4 => proptest::sample::select(RAW_LOOKALIKES).prop_map(|s| s.to_string()),
            4 => gen::plain_text(6).prop_map(|s| s.replace("endraw", "endra_")),
            2 => ws_run(),
            1 => proptest::sample::select(RAW_ENDLIKE).prop_map(|s| s.to_string()),
        ],
        0..4,
    )
    .prop_map(|v| close_quotes_in_lookalikes(v.concat()))
    .boxed()
}

/// Known finding C03/raw-quote (known_findings.json): the lexer runs over the whole file before any
/// block looks at its body, so a quote inside tag-like text of a raw body (`{% raw %}{% if x'{% endraw %}`)
/// starts a string literal that swallows `{% endraw %}` when a matching quote and a delimiter end
/// follow anywhere later in the file.  That trigger is excluded from the general generator by
/// construction (the unterminated quote becomes the letter q) and enumerated on its own in
/// C03 `raw_quote_across_endraw`, where it is judged against the known-findings list.
pub fn close_quotes_in_lookalikes(body: String) -> String {
    let mut b: Vec<char> = body.chars().collect();
    let mut i = 0;
    while i + 1 < b.len() {
        if b[i] == '{' && (b[i + 1] == '%' || b[i + 1] == '{') {
            // inside tag-like text: walk to its delimiter end, string literals are opaque
            let mut j = i + 2;
            while j < b.len() {
                if b[j] == '\'' || b[j] == '"' {
                    match (j + 1..b.len()).find(|k| b[*k] == b[j]) {
                        Some(k) => j = k + 1,
                        None => {
                            b[j] = 'q';
                            j += 1;
                        }
                    }
                } else if j + 1 < b.len() && (b[j] == '%' || b[j] == '}') && b[j + 1] == '}' {
                    break;
                } else {
                    j += 1;
                }
            }
            i = j;
        } else {
            i += 1;
        }
    }
    b.into_iter().collect()
}

pub const COMMENT_BODIES: &[&str] = &[
    "",
    " plain text ",
    "{{ | }}",
    "{{ x | nope }}",
    "{% assign x = 'changed' %}",
    "{% increment x %}",
    "{% capture y %}captured{% endcapture %}",
    "{% comment %}nested{% endcomment %}",
    "{% comment %}{% assign x = 2 %}{% endcomment %} tail",
    "{% if true %}{% assign z = 3 %}{% endif %}",
    "{{ 1 }}{{ x }}",
    "é 😀 \t\n",
    "{% unknown_tag %}",
    "{% raw %}{% endraw %}",
    "{% for i in (1..3) %}{% increment y %}{% endfor %}",
];

pub fn comment_body() -> BoxedStrategy<String> {
    prop_oneof![
        3 => proptest::sample::select(COMMENT_BODIES).prop_map(|s| s.to_string()),
        1 => gen::plain_text(10),
        1 => (proptest::sample::select(COMMENT_BODIES), gen::plain_text(5), proptest::sample::select(COMMENT_BODIES)).prop_map(|(a, b, c)| format!("{a}{b}{c}")),
    ]
    .boxed()
}

fn leaf(cfg: &GenCfg) -> BoxedStrategy<Node> {
    let t = tr(cfg.layout);
    let mut v: Vec<(u32, BoxedStrategy<Node>)> = vec![(4, text_node(cfg))];
    if cfg.out {
        v.push((4, (expr(cfg), filters(cfg), t.clone()).prop_map(|(e, filters, t)| Node::Out { e, filters, t }).boxed()));
    }
    if cfg.assign {
        v.push((2, (select_name(&cfg.names), expr(cfg), filters(cfg), t.clone()).prop_map(|(name, e, filters, t)| Node::Assign { name, e, filters, t }).boxed()));
    }
    if cfg.counters {
        v.push((1, (select_name(&cfg.names), t.clone()).prop_map(|(name, t)| Node::Incr { name, t }).boxed()));
        v.push((1, (select_name(&cfg.names), t.clone()).prop_map(|(name, t)| Node::Decr { name, t }).boxed()));
    }
    if cfg.interrupts {
        v.push((1, t.clone().prop_map(Node::Break).boxed()));
        v.push((1, t.clone().prop_map(Node::Continue).boxed()));
    }
    if cfg.cycle {
        v.push((
            1,
            (proptest::option::weighted(0.4, proptest::sample::select(vec!["g", "h", "'q'"])), proptest::collection::vec(expr(cfg), 1..4), t.clone())
                .prop_map(|(g, values, t)| Node::Cycle { group: g.map(|s| s.to_string()), values, t })
                .boxed(),
        ));
    }
    if cfg.raw {
        v.push((1, (raw_body(), t.clone(), t.clone()).prop_map(|(body, open, close)| Node::Raw { body, open, close }).boxed()));
    }
    if cfg.comment {
        v.push((1, (comment_body(), t.clone(), t.clone()).prop_map(|(body, open, close)| Node::Comment { body, open, close }).boxed()));
    }
    if cfg.include && !cfg.partials.is_empty() {
        let names = cfg.partials.clone();
        v.push((
            2,
            (proptest::sample::select(names), proptest::collection::vec((select_name(&cfg.names), expr(cfg)), 0..3), t.clone())
                .prop_map(|(n, args, t)| Node::Include { name: Expr::str(&n), args: dedup_args(args), t })
                .boxed(),
        ));
    }
    if cfg.render && !cfg.partials.is_empty() {
        let names = cfg.partials.clone();
        let form = prop_oneof![
            3 => Just(RenderForm::Plain),
            1 => (expr(cfg), select_name(&cfg.names)).prop_map(|(e, k)| RenderForm::With(e, k)),
            1 => (coll(cfg), select_name(&cfg.names)).prop_map(|(c, k)| RenderForm::For(c, k)),
        ];
        v.push((
            2,
            (proptest::sample::select(names), form, proptest::collection::vec((select_name(&cfg.names), expr(cfg)), 0..3), t.clone())
                .prop_map(|(n, form, args, t)| Node::Render { name: Expr::str(&n), form, args: dedup_args(args), t })
                .boxed(),
        ));
    }
    proptest::strategy::Union::new_weighted(v).boxed()
}

pub fn dedup_args(args: Vec<(String, Expr)>) -> Vec<(String, Expr)> {
    let mut seen = std::collections::HashSet::new();
    args.into_iter().filter(|(k, _)| seen.insert(k.clone())).collect()
}

/// A sequence of nodes of the configured shape.
pub fn nodes(cfg: &GenCfg, max_top: usize) -> BoxedStrategy<Vec<Node>> {
    let cfg2 = cfg.clone();
    let node = leaf(cfg).prop_recursive(cfg.depth, 48, 4, move |inner| {
        let cfg = cfg2.clone();
        let t = tr(cfg.layout);
        let body = proptest::collection::vec(inner.clone(), 0..4);
        let else_ = proptest::option::weighted(0.4, (body.clone(), t.clone()));
        let mut v: Vec<(u32, BoxedStrategy<Node>)> = Vec::new();
        if cfg.conditionals {
            v.push((
                3,
                (proptest::collection::vec((cond(&cfg), body.clone(), t.clone()), 1..3), else_.clone(), t.clone())
                    .prop_map(|(arms, else_, close)| Node::If { arms, else_, close })
                    .boxed(),
            ));
            v.push((
                1,
                (cond(&cfg), body.clone(), else_.clone(), t.clone(), t.clone())
                    .prop_map(|(cond, body, else_, open, close)| Node::Unless { cond, body, else_, open, close })
                    .boxed(),
            ));
        }
        if cfg.case {
            let when = (proptest::collection::vec(expr(&cfg), 1..3), any::<bool>(), body.clone(), t.clone()).prop_map(|(values, use_or, body, t)| When { values, use_or, body, t });
            v.push((
                1,
                (expr(&cfg), proptest::collection::vec(when, 1..3), else_.clone(), t.clone(), t.clone())
                    .prop_map(|(target, whens, else_, open, close)| Node::Case { target, whens, else_, open, close })
                    .boxed(),
            ));
        }
        if cfg.loops {
            v.push((
                3,
                (select_name(&cfg.loopvars), coll(&cfg), small_attr(), small_attr(), any::<bool>(), body.clone(), else_.clone(), t.clone(), t.clone())
                    .prop_map(|(var, coll, limit, offset, reversed, body, else_, open, close)| Node::For { var, coll, limit, offset, reversed, body, else_, open, close })
                    .boxed(),
            ));
        }
        if cfg.tablerow {
            v.push((
                1,
                (select_name(&cfg.loopvars), coll(&cfg), proptest::option::weighted(0.5, (1i64..4).prop_map(Expr::int)), small_attr(), small_attr(), body.clone(), t.clone(), t.clone())
                    .prop_map(|(var, coll, cols, limit, offset, body, open, close)| Node::TableRow { var, coll, cols, limit, offset, body, open, close })
                    .boxed(),
            ));
        }
        if cfg.capture {
            v.push((1, (select_name(&cfg.names), body.clone(), t.clone(), t.clone()).prop_map(|(name, body, open, close)| Node::Capture { name, body, open, close }).boxed()));
        }
        if cfg.ifchanged {
            v.push((1, (body.clone(), t.clone(), t.clone()).prop_map(|(body, open, close)| Node::IfChanged { body, open, close }).boxed()));
        }
        if v.is_empty() {
            return inner.boxed();
        }
        proptest::strategy::Union::new_weighted(v).boxed()
    });
    let top = cfg.top_level_interrupts;
    proptest::collection::vec(node, 1..=max_top)
        .prop_map(move |v| {
            let mut budget = MAX_NODES;
            fix_interrupts(normalize(prune(v, &mut budget)), top)
        })
        .boxed()
}

/// Upper bound on the number of nodes of a generated template (DESIGN: size <= 60 nodes).
pub const MAX_NODES: usize = 60;

/// Keep the first `budget` nodes in source order, dropping the rest (bodies become shorter).
pub fn prune(nodes: Vec<Node>, budget: &mut usize) -> Vec<Node> {
    let mut out = Vec::new();
    for n in nodes {
        if *budget == 0 {
            break;
        }
        *budget -= 1;
        out.push(match n {
            Node::Capture { name, body, open, close } => Node::Capture { name, body: prune(body, budget), open, close },
            Node::If { arms, else_, close } => Node::If {
                arms: arms.into_iter().map(|(c, b, t)| (c, prune(b, budget), t)).collect(),
                else_: else_.map(|(b, t)| (prune(b, budget), t)),
                close,
            },
            Node::Unless { cond, body, else_, open, close } => Node::Unless { cond, body: prune(body, budget), else_: else_.map(|(b, t)| (prune(b, budget), t)), open, close },
            Node::Case { target, whens, else_, open, close } => Node::Case {
                target,
                whens: whens.into_iter().map(|w| When { body: prune(w.body.clone(), budget), ..w }).collect(),
                else_: else_.map(|(b, t)| (prune(b, budget), t)),
                open,
                close,
            },
            Node::For { var, coll, limit, offset, reversed, body, else_, open, close } => {
                Node::For { var, coll, limit, offset, reversed, body: prune(body, budget), else_: else_.map(|(b, t)| (prune(b, budget), t)), open, close }
            }
            Node::TableRow { var, coll, cols, limit, offset, body, open, close } => Node::TableRow { var, coll, cols, limit, offset, body: prune(body, budget), open, close },
            Node::IfChanged { body, open, close } => Node::IfChanged { body: prune(body, budget), open, close },
            other => other,
        });
    }
    out
}

/// Replace break/continue that are not inside a `for` body (or are inside a tablerow body) by
/// nothing: those positions are outside every property statement.
pub fn fix_interrupts(nodes: Vec<Node>, in_for: bool) -> Vec<Node> {
    let fix = |b: Vec<Node>, f: bool| fix_interrupts(b, f);
    let out: Vec<Node> = nodes
        .into_iter()
        .filter_map(|n| {
            Some(match n {
                Node::Break(_) | Node::Continue(_) if !in_for => return None,
                Node::Capture { name, body, open, close } => Node::Capture { name, body: fix(body, in_for), open, close },
                Node::If { arms, else_, close } => {
                    Node::If { arms: arms.into_iter().map(|(c, b, t)| (c, fix(b, in_for), t)).collect(), else_: else_.map(|(b, t)| (fix(b, in_for), t)), close }
                }
                Node::Unless { cond, body, else_, open, close } => Node::Unless { cond, body: fix(body, in_for), else_: else_.map(|(b, t)| (fix(b, in_for), t)), open, close },
                Node::Case { target, whens, else_, open, close } => Node::Case {
                    target,
                    whens: whens.into_iter().map(|w| When { body: fix_interrupts(w.body.clone(), in_for), ..w }).collect(),
                    else_: else_.map(|(b, t)| (fix(b, in_for), t)),
                    open,
                    close,
                },
                Node::For { var, coll, limit, offset, reversed, body, else_, open, close } => {
                    Node::For { var, coll, limit, offset, reversed, body: fix(body, true), else_: else_.map(|(b, t)| (fix(b, false), t)), open, close }
                }
                Node::TableRow { var, coll, cols, limit, offset, body, open, close } => Node::TableRow { var, coll, cols, limit, offset, body: fix(body, false), open, close },
                Node::IfChanged { body, open, close } => Node::IfChanged { body: fix(body, false), open, close },
                other => other,
            })
        })
        .collect();
    normalize(out)
}


/// Apply `f` to every include/render node (recursively); `f` returns the replacement nodes.
pub fn map_calls(nodes: Vec<Node>, f: &mut dyn FnMut(Node) -> Vec<Node>) -> Vec<Node> {
    let mut out = Vec::new();
    for n in nodes {
        match n {
            Node::Include { .. } | Node::Render { .. } => out.extend(f(n)),
            Node::Capture { name, body, open, close } => out.push(Node::Capture { name, body: map_calls(body, f), open, close }),
            Node::If { arms, else_, close } => {
                let arms = arms.into_iter().map(|(c, b, t)| (c, map_calls(b, f), t)).collect();
                let else_ = else_.map(|(b, t)| (map_calls(b, f), t));
                out.push(Node::If { arms, else_, close })
            }
            Node::Unless { cond, body, else_, open, close } => {
                let body = map_calls(body, f);
                let else_ = else_.map(|(b, t)| (map_calls(b, f), t));
                out.push(Node::Unless { cond, body, else_, open, close })
            }
            Node::Case { target, whens, else_, open, close } => {
                let whens = whens.into_iter().map(|w| When { body: map_calls(w.body.clone(), f), ..w }).collect();
                let else_ = else_.map(|(b, t)| (map_calls(b, f), t));
                out.push(Node::Case { target, whens, else_, open, close })
            }
            Node::For { var, coll, limit, offset, reversed, body, else_, open, close } => {
                let body = map_calls(body, f);
                let else_ = else_.map(|(b, t)| (map_calls(b, f), t));
                out.push(Node::For { var, coll, limit, offset, reversed, body, else_, open, close })
            }
            Node::TableRow { var, coll, cols, limit, offset, body, open, close } => out.push(Node::TableRow { var, coll, cols, limit, offset, body: map_calls(body, f), open, close }),
            Node::IfChanged { body, open, close } => out.push(Node::IfChanged { body: map_calls(body, f), open, close }),
            other => out.push(other),
        }
    }
    out
}

pub fn call_target(n: &Node) -> Option<String> {
    match n {
        Node::Include { name: Expr::Lit(Lit::Str(s, _)), .. } | Node::Render { name: Expr::Lit(Lit::Str(s, _)), .. } => Some(s.clone()),
        _ => None,
    }
}
