//! Access to the engine under test through its public API only.

use crate::engine::{guard, Panicked};
use crate::rv::{from_view, RV};
use liquid::partials::{EagerCompiler, InMemorySource, LazyCompiler, OnDemandCompiler, PartialCompiler};
use liquid::{Parser, ParserBuilder, Template};
use liquid_core::parser::{FilterArguments, FilterReflection, ParameterReflection, ParseFilter};
use liquid_core::{Filter, Runtime, Value, ValueView};
use std::fmt;

// ---------------------------------------------------------------------------------------------
// `dump` filter defined in the harness: canonical kind-tagged rendering of its input.

#[derive(Clone, Copy, Debug)]
pub struct Dump;

impl FilterReflection for Dump {
    fn name(&self) -> &str {
        "dump"
    }
    fn description(&self) -> &str {
        "harness: canonical dump"
    }
    fn positional_parameters(&self) -> &'static [ParameterReflection] {
        &[]
    }
    fn keyword_parameters(&self) -> &'static [ParameterReflection] {
        &[]
    }
}

impl ParseFilter for Dump {
    fn parse(&self, _args: FilterArguments<'_>) -> liquid_core::Result<Box<dyn Filter>> {
        Ok(Box::new(DumpFilter))
    }
    fn reflection(&self) -> &dyn FilterReflection {
        self
    }
}

#[derive(Debug)]
struct DumpFilter;
impl fmt::Display for DumpFilter {
    fn fmt(&self, f: &mut fmt::Formatter<'_>) -> fmt::Result {
        write!(f, "dump")
    }
}
impl Filter for DumpFilter {
    fn evaluate(&self, input: &dyn ValueView, _rt: &dyn Runtime) -> liquid_core::Result<Value> {
        Ok(Value::scalar(from_view(input).dump()))
    }
}

// `probe` filter: stores the structural form of its input in a thread-local slot and passes the
// value through unchanged (structural observation without any hook in /repo).

thread_local! {
    static PROBED: std::cell::RefCell<Option<RV>> = const { std::cell::RefCell::new(None) };
}

#[derive(Clone, Copy, Debug)]
pub struct Probe;

impl FilterReflection for Probe {
    fn name(&self) -> &str {
        "probe"
    }
    fn description(&self) -> &str {
        "harness: structural probe"
    }
    fn positional_parameters(&self) -> &'static [ParameterReflection] {
        &[]
    }
    fn keyword_parameters(&self) -> &'static [ParameterReflection] {
        &[]
    }
}

impl ParseFilter for Probe {
    fn parse(&self, _args: FilterArguments<'_>) -> liquid_core::Result<Box<dyn Filter>> {
        Ok(Box::new(ProbeFilter))
    }
    fn reflection(&self) -> &dyn FilterReflection {
        self
    }
}

#[derive(Debug)]
struct ProbeFilter;
impl fmt::Display for ProbeFilter {
    fn fmt(&self, f: &mut fmt::Formatter<'_>) -> fmt::Result {
        write!(f, "probe")
    }
}
impl Filter for ProbeFilter {
    fn evaluate(&self, input: &dyn ValueView, _rt: &dyn Runtime) -> liquid_core::Result<Value> {
        PROBED.with(|p| *p.borrow_mut() = Some(from_view(input)));
        Ok(input.to_value())
    }
}

// ---------------------------------------------------------------------------------------------
// parser configurations

#[derive(Clone, Copy, Debug, PartialEq, Eq, Hash, serde::Serialize, serde::Deserialize)]
pub enum Conf {
    Stdlib,
    Full,
    Empty,
}

pub const CONFS: [Conf; 3] = [Conf::Stdlib, Conf::Full, Conf::Empty];

pub fn add_extras<P: PartialCompiler>(b: ParserBuilder<P>) -> ParserBuilder<P> {
    b.filter(liquid_lib::jekyll::Slugify)
        .filter(liquid_lib::jekyll::Push)
        .filter(liquid_lib::jekyll::Pop)
        .filter(liquid_lib::jekyll::Unshift)
        .filter(liquid_lib::jekyll::Shift)
        .filter(liquid_lib::jekyll::ArrayToSentenceString)
        .filter(liquid_lib::jekyll::Sort)
        .filter(liquid_lib::shopify::Pluralize)
        .filter(liquid_lib::extra::DateInTz)
}

pub fn builder(conf: Conf) -> ParserBuilder {
    match conf {
        Conf::Stdlib => ParserBuilder::with_stdlib().filter(Dump).filter(Probe),
        Conf::Full => add_extras(ParserBuilder::with_stdlib()).filter(Dump).filter(Probe),
        Conf::Empty => ParserBuilder::new(),
    }
}

pub fn parser(conf: Conf) -> Parser {
    builder(conf).build().expect("parser without partials builds")
}

thread_local! {
    static PARSERS: [Parser; 3] = [parser(Conf::Stdlib), parser(Conf::Full), parser(Conf::Empty)];
}

/// Thread-local cached parser without partials.
pub fn with_parser<T>(conf: Conf, f: impl FnOnce(&Parser) -> T) -> T {
    PARSERS.with(|p| {
        f(&p[match conf {
            Conf::Stdlib => 0,
            Conf::Full => 1,
            Conf::Empty => 2,
        }])
    })
}

#[derive(Clone, Copy, Debug, PartialEq, Eq, Hash, serde::Serialize, serde::Deserialize)]
pub enum Policy {
    Eager,
    Lazy,
    OnDemand,
}
pub const POLICIES: [Policy; 3] = [Policy::Eager, Policy::Lazy, Policy::OnDemand];

fn source(partials: &[(String, String)]) -> InMemorySource {
    let mut src = InMemorySource::new();
    for (n, s) in partials {
        src.add(n.clone(), s.clone());
    }
    src
}

/// Build a stdlib(+dump) parser with the given partial sources under a compilation policy.
pub fn parser_with_partials(policy: Policy, partials: &[(String, String)]) -> Result<Result<Parser, String>, Panicked> {
    guard(|| {
        let b = ParserBuilder::with_stdlib().filter(Dump).filter(Probe);
        let r = match policy {
            Policy::Eager => b.partials(EagerCompiler::new(source(partials))).build(),
            Policy::Lazy => b.partials(LazyCompiler::new(source(partials))).build(),
            Policy::OnDemand => b.partials(OnDemandCompiler::new(source(partials))).build(),
        };
        r.map_err(|e| e.to_string())
    })
}

// ---------------------------------------------------------------------------------------------
// guarded parse / render

pub type R<T> = Result<Result<T, String>, Panicked>;

pub fn parse(p: &Parser, src: &str) -> R<Template> {
    guard(|| p.parse(src).map_err(|e| e.to_string()))
}

pub fn render(t: &Template, globals: &liquid::Object) -> R<String> {
    guard(|| t.render(globals).map_err(|e| e.to_string()))
}

/// parse + render in one go; Err(String) if either fails ("parse: .." / "render: ..")
pub fn run(p: &Parser, src: &str, globals: &liquid::Object) -> R<String> {
    match parse(p, src)? {
        Err(e) => Ok(Err(format!("parse: {e}"))),
        Ok(t) => Ok(render(&t, globals)?.map_err(|e| format!("render: {e}"))),
    }
}

/// A writer that accepts at most `chunk` bytes per call (short writes are legal for io::Write).
pub struct ChunkWriter {
    pub chunk: usize,
    pub bytes: Vec<u8>,
}

impl std::io::Write for ChunkWriter {
    fn write(&mut self, buf: &[u8]) -> std::io::Result<usize> {
        let n = buf.len().min(self.chunk);
        self.bytes.extend_from_slice(&buf[..n]);
        Ok(n)
    }
    fn flush(&mut self) -> std::io::Result<()> {
        Ok(())
    }
}

/// parse + streaming render into a writer that takes `chunk` bytes at a time
pub fn run_streamed(p: &Parser, src: &str, globals: &liquid::Object, chunk: usize) -> R<String> {
    match parse(p, src)? {
        Err(e) => Ok(Err(format!("parse: {e}"))),
        Ok(t) => guard(|| {
            let mut w = ChunkWriter { chunk, bytes: Vec::new() };
            t.render_to(&mut w, globals).map_err(|e| format!("render: {e}"))?;
            String::from_utf8(w.bytes).map_err(|_| "streamed bytes are not UTF-8".to_string())
        }),
    }
}

pub fn run_rv(p: &Parser, src: &str, data: &RV) -> R<String> {
    run(p, src, &data.to_object())
}

/// Short status text for messages
pub fn show(r: &R<String>) -> String {
    match r {
        Ok(Ok(s)) => format!("Ok({s:?})"),
        Ok(Err(e)) => format!("Err({:?})", e.lines().next().unwrap_or("")),
        Err(p) => format!("PANIC({})", p.what),
    }
}


// ---------------------------------------------------------------------------------------------
// filter application through real templates: `{{ v | NAME: a0, a1 | probe }}` with v, a0, a1
// passed as globals (no quoting limits); templates are cached per (conf, filter, arity).

thread_local! {
    static FILTER_TEMPLATES: std::cell::RefCell<std::collections::HashMap<(Conf, String, usize), Result<std::rc::Rc<Template>, String>>> = std::cell::RefCell::new(std::collections::HashMap::new());
}

pub fn filter_source(name: &str, arity: usize) -> String {
    let args: Vec<String> = (0..arity).map(|i| format!("a{i}")).collect();
    if arity == 0 {
        format!("{{{{ v | {name} | probe }}}}")
    } else {
        format!("{{{{ v | {name}: {} | probe }}}}", args.join(", "))
    }
}

/// Apply a filter; Ok(Ok(value)) / Ok(Err(parse-or-render error)) / Err(panic).
pub fn apply(conf: Conf, name: &str, input: &RV, args: &[RV]) -> R<RV> {
    apply_values(conf, name, input.to_value(), args.iter().map(|a| a.to_value()).collect())
}

/// Same with engine values (dates have no RV form).
pub fn apply_values(conf: Conf, name: &str, input: Value, args: Vec<Value>) -> R<RV> {
    let key = (conf, name.to_string(), args.len());
    let tpl = FILTER_TEMPLATES.with(|c| {
        let mut c = c.borrow_mut();
        if let Some(t) = c.get(&key) {
            return Ok(t.clone());
        }
        let src = filter_source(name, args.len());
        let t = with_parser(conf, |p| parse(p, &src))?;
        let t = t.map(std::rc::Rc::new).map_err(|e| format!("parse: {e}"));
        c.insert(key.clone(), t.clone());
        Ok(t)
    })?;
    let tpl = match tpl {
        Ok(t) => t,
        Err(e) => return Ok(Err(e)),
    };
    let mut g = liquid::Object::new();
    g.insert("v".into(), input);
    for (i, a) in args.into_iter().enumerate() {
        g.insert(format!("a{i}").into(), a);
    }
    PROBED.with(|p| *p.borrow_mut() = None);
    match render(&tpl, &g)? {
        Err(e) => Ok(Err(format!("render: {e}"))),
        Ok(_) => match PROBED.with(|p| p.borrow_mut().take()) {
            Some(v) => Ok(Ok(v)),
            None => Err(chain_cut_short()),
        },
    }
}

/// The render succeeded but the last filter of the chain (the harness's `probe`) never ran: the
/// chain was not applied in full.  Reported like a panic so that every caller treats it as a failure.
fn chain_cut_short() -> Panicked {
    Panicked { what: "NOT A PANIC: the render succeeded but the filter chain ended before its last filter was applied @ crates/core/src/parser/filter_chain.rs:0".into() }
}

/// Apply a chain of filters left to right in ONE template.
pub fn apply_chain(conf: Conf, chain: &[(String, Vec<RV>)], input: &RV) -> R<RV> {
    let mut src = String::from("{{ v");
    let mut g = liquid::Object::new();
    g.insert("v".into(), input.to_value());
    let mut n = 0;
    for (name, args) in chain {
        src.push_str(" | ");
        src.push_str(name);
        for (i, a) in args.iter().enumerate() {
            src.push_str(if i == 0 { ": " } else { ", " });
            src.push_str(&format!("a{n}"));
            g.insert(format!("a{n}").into(), a.to_value());
            n += 1;
        }
    }
    src.push_str(" | probe }}");
    PROBED.with(|p| *p.borrow_mut() = None);
    let r = with_parser(conf, |p| run(p, &src, &g))?;
    match r {
        Err(e) => Ok(Err(e)),
        Ok(_) => match PROBED.with(|p| p.borrow_mut().take()) {
            Some(v) => Ok(Ok(v)),
            None => Err(chain_cut_short()),
        },
    }
}


/// Names of all filters registered under a configuration (through the public reflection API),
/// without the harness's own `dump` / `probe`.
pub fn filter_names(conf: Conf) -> Vec<String> {
    use liquid::reflection::ParserReflection;
    let b = builder(conf);
    let mut v: Vec<String> = b.filters().map(|f| f.name().to_string()).filter(|n| n != "dump" && n != "probe").collect();
    v.sort();
    v
}

pub fn tag_names(conf: Conf) -> (Vec<String>, Vec<String>) {
    use liquid::reflection::ParserReflection;
    let b = builder(conf);
    let mut t: Vec<String> = b.tags().map(|f| f.tag().to_string()).collect();
    let mut bl: Vec<String> = b.blocks().map(|f| f.start_tag().to_string()).collect();
    t.sort();
    bl.sort();
    (t, bl)
}
