//! Access to the engine under test through its public API only.

use crate::engine::{guard, Panicked};
use crate::rv::{from_view, RV};
use liquid::partials::{EagerCompiler, InMemorySource, LazyCompiler, OnDemandCompiler, PartialCompiler};
use liquid::{Parser, ParserBuilder, Template};
use liquid_core::parser::{FilterArguments, FilterReflection, ParameterReflection, ParseFilter};
use liquid_core::{Filter, Runtime, Value, ValueView};
use std::fmt;

// ---------------------------------------------------------------------------------------------
// `dump` filter defined in the harness: canonical kind-tagged rendering of its input.

#[derive(Clone, Copy, Debug)]
pub struct Dump;

impl FilterReflection for Dump {
    fn name(&self) -> &str {
        "dump"
    }
    fn description(&self) -> &str {
        "harness: canonical dump"
    }
    fn positional_parameters(&self) -> &'static [ParameterReflection] {
        &[]
    }
    fn keyword_parameters(&self) -> &'static [ParameterReflection] {
        &[]
    }
}

impl ParseFilter for Dump {
    fn parse(&self, _args: FilterArguments<'_>) -> liquid_core::Result<Box<dyn Filter>> {
        Ok(Box::new(DumpFilter))
    }
    fn reflection(&self) -> &dyn FilterReflection {
        self
    }
}

#[derive(Debug)]
struct DumpFilter;
impl fmt::Display for DumpFilter {
    fn fmt(&self, f: &mut fmt::Formatter<'_>) -> fmt::Result {
        write!(f, "dump")
    }
}
impl Filter for DumpFilter {
    fn evaluate(&self, input: &dyn ValueView, _rt: &dyn Runtime) -> liquid_core::Result<Value> {
        Ok(Value::scalar(from_view(input).dump()))
    }
}

// ---------------------------------------------------------------------------------------------
// parser configurations

#[derive(Clone, Copy, Debug, PartialEq, Eq, Hash, serde::Serialize, serde::Deserialize)]
pub enum Conf {
    Stdlib,
    Full,
    Empty,
}

pub const CONFS: [Conf; 3] = [Conf::Stdlib, Conf::Full, Conf::Empty];

pub fn add_extras<P: PartialCompiler>(b: ParserBuilder<P>) -> ParserBuilder<P> {
    b.filter(liquid_lib::jekyll::Slugify)
        .filter(liquid_lib::jekyll::Push)
        .filter(liquid_lib::jekyll::Pop)
        .filter(liquid_lib::jekyll::Unshift)
        .filter(liquid_lib::jekyll::Shift)
        .filter(liquid_lib::jekyll::ArrayToSentenceString)
        .filter(liquid_lib::jekyll::Sort)
        .filter(liquid_lib::shopify::Pluralize)
        .filter(liquid_lib::extra::DateInTz)
}

pub fn builder(conf: Conf) -> ParserBuilder {
    match conf {
        Conf::Stdlib => ParserBuilder::with_stdlib().filter(Dump),
        Conf::Full => add_extras(ParserBuilder::with_stdlib()).filter(Dump),
        Conf::Empty => ParserBuilder::new(),
    }
}

pub fn parser(conf: Conf) -> Parser {
    builder(conf).build().expect("parser without partials builds")
}

thread_local! {
    static PARSERS: [Parser; 3] = [parser(Conf::Stdlib), parser(Conf::Full), parser(Conf::Empty)];
}

/// Thread-local cached parser without partials.
pub fn with_parser<T>(conf: Conf, f: impl FnOnce(&Parser) -> T) -> T {
    PARSERS.with(|p| {
        f(&p[match conf {
            Conf::Stdlib => 0,
            Conf::Full => 1,
            Conf::Empty => 2,
        }])
    })
}

#[derive(Clone, Copy, Debug, PartialEq, Eq, Hash, serde::Serialize, serde::Deserialize)]
pub enum Policy {
    Eager,
    Lazy,
    OnDemand,
}
pub const POLICIES: [Policy; 3] = [Policy::Eager, Policy::Lazy, Policy::OnDemand];

fn source(partials: &[(String, String)]) -> InMemorySource {
    let mut src = InMemorySource::new();
    for (n, s) in partials {
        src.add(n.clone(), s.clone());
    }
    src
}

/// Build a stdlib(+dump) parser with the given partial sources under a compilation policy.
pub fn parser_with_partials(policy: Policy, partials: &[(String, String)]) -> Result<Result<Parser, String>, Panicked> {
    guard(|| {
        let b = ParserBuilder::with_stdlib().filter(Dump);
        let r = match policy {
            Policy::Eager => b.partials(EagerCompiler::new(source(partials))).build(),
            Policy::Lazy => b.partials(LazyCompiler::new(source(partials))).build(),
            Policy::OnDemand => b.partials(OnDemandCompiler::new(source(partials))).build(),
        };
        r.map_err(|e| e.to_string())
    })
}

// ---------------------------------------------------------------------------------------------
// guarded parse / render

pub type R<T> = Result<Result<T, String>, Panicked>;

pub fn parse(p: &Parser, src: &str) -> R<Template> {
    guard(|| p.parse(src).map_err(|e| e.to_string()))
}

pub fn render(t: &Template, globals: &liquid::Object) -> R<String> {
    guard(|| t.render(globals).map_err(|e| e.to_string()))
}

/// parse + render in one go; Err(String) if either fails ("parse: .." / "render: ..")
pub fn run(p: &Parser, src: &str, globals: &liquid::Object) -> R<String> {
    match parse(p, src)? {
        Err(e) => Ok(Err(format!("parse: {e}"))),
        Ok(t) => Ok(render(&t, globals)?.map_err(|e| format!("render: {e}"))),
    }
}

pub fn run_rv(p: &Parser, src: &str, data: &RV) -> R<String> {
    run(p, src, &data.to_object())
}

/// Short status text for messages
pub fn show(r: &R<String>) -> String {
    match r {
        Ok(Ok(s)) => format!("Ok({s:?})"),
        Ok(Err(e)) => format!("Err({:?})", e.lines().next().unwrap_or("")),
        Err(p) => format!("PANIC({})", p.what),
    }
}
