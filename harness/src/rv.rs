//! Reference values (RV): the harness's own value model, convertible to engine data by direct
//! construction (no serde), with its own render / truthiness.

use liquid::model::{Object, Value};
use liquid_core::model::{ArrayView, ObjectView, State, ValueView};
use serde::{Deserialize, Serialize};

/// f64 that serialises through its Debug text so that inf / NaN / -0.0 survive JSON.
#[derive(Clone, Copy, Debug)]
pub struct F(pub f64);

impl PartialEq for F {
    fn eq(&self, o: &F) -> bool {
        self.0.to_bits() == o.0.to_bits()
    }
}
impl Serialize for F {
    fn serialize<S: serde::Serializer>(&self, s: S) -> Result<S::Ok, S::Error> {
        s.serialize_str(&format!("{:?}", self.0))
    }
}
impl<'de> Deserialize<'de> for F {
    fn deserialize<D: serde::Deserializer<'de>>(d: D) -> Result<F, D::Error> {
        let s = String::deserialize(d)?;
        s.parse::<f64>().map(F).map_err(serde::de::Error::custom)
    }
}

#[derive(Clone, Debug, PartialEq, Serialize, Deserialize)]
pub enum RV {
    Nil,
    Bool(bool),
    Int(i64),
    Float(F),
    Str(String),
    Arr(Vec<RV>),
    Obj(Vec<(String, RV)>),
    Empty,
    Blank,
}

pub fn fl(x: f64) -> RV {
    RV::Float(F(x))
}
pub fn st(s: &str) -> RV {
    RV::Str(s.to_string())
}

impl RV {
    pub fn to_value(&self) -> Value {
        match self {
            RV::Nil => Value::Nil,
            RV::Bool(b) => Value::scalar(*b),
            RV::Int(i) => Value::scalar(*i),
            RV::Float(f) => Value::scalar(f.0),
            RV::Str(s) => Value::scalar(s.clone()),
            RV::Arr(a) => Value::Array(a.iter().map(|x| x.to_value()).collect()),
            RV::Obj(o) => {
                let mut obj = Object::new();
                for (k, v) in o {
                    obj.insert(k.clone().into(), v.to_value());
                }
                Value::Object(obj)
            }
            RV::Empty => Value::State(State::Empty),
            RV::Blank => Value::State(State::Blank),
        }
    }

    /// Build the globals object from an RV::Obj.
    pub fn to_object(&self) -> Object {
        match self.to_value() {
            Value::Object(o) => o,
            _ => Object::new(),
        }
    }

    pub fn kind(&self) -> &'static str {
        match self {
            RV::Nil => "nil",
            RV::Bool(_) => "bool",
            RV::Int(_) => "int",
            RV::Float(_) => "float",
            RV::Str(_) => "str",
            RV::Arr(_) => "arr",
            RV::Obj(_) => "obj",
            RV::Empty => "empty",
            RV::Blank => "blank",
        }
    }

    /// What `{{ v }}` prints, per the value model's documented rendering: nil and states print
    /// nothing, arrays concatenate their elements, scalars print as Rust prints them.
    pub fn render(&self) -> String {
        match self {
            RV::Nil | RV::Empty | RV::Blank => String::new(),
            RV::Bool(b) => b.to_string(),
            RV::Int(i) => i.to_string(),
            RV::Float(f) => f.0.to_string(),
            RV::Str(s) => s.clone(),
            RV::Arr(a) => a.iter().map(|x| x.render()).collect(),
            RV::Obj(o) => {
                // printing an object is not pinned by any property statement; generators of
                // compared templates never print objects (key+value concatenation is what the
                // engine does, mirrored here only so that C02-style runs have something to show).
                o.iter().map(|(k, v)| format!("{k}{}", v.render())).collect()
            }
        }
    }

    /// Liquid truth: everything but nil and false.  (`empty`/`blank` literals are unasserted.)
    pub fn truthy(&self) -> bool {
        !matches!(self, RV::Nil | RV::Bool(false))
    }

    pub fn get_key(&self, k: &str) -> Option<&RV> {
        match self {
            RV::Obj(o) => o.iter().find(|(kk, _)| kk == k).map(|x| &x.1),
            _ => None,
        }
    }

    pub fn is_scalar(&self) -> bool {
        matches!(self, RV::Bool(_) | RV::Int(_) | RV::Float(_) | RV::Str(_))
    }

    /// canonical order-independent JSON-ish dump with kind tags
    pub fn dump(&self) -> String {
        match self {
            RV::Nil => "nil".into(),
            RV::Bool(b) => format!("b:{b}"),
            RV::Int(i) => format!("i:{i}"),
            RV::Float(f) => format!("f:{:?}", f.0),
            RV::Str(s) => format!("s:{s:?}"),
            RV::Arr(a) => format!("[{}]", a.iter().map(|x| x.dump()).collect::<Vec<_>>().join(",")),
            RV::Obj(o) => {
                let mut items: Vec<_> = o.iter().map(|(k, v)| format!("{k:?}:{}", v.dump())).collect();
                items.sort();
                format!("{{{}}}", items.join(","))
            }
            RV::Empty => "empty".into(),
            RV::Blank => "blank".into(),
        }
    }
}

/// Convert any engine value (through the public view traits) into an RV, preserving kind.
/// Dates are mapped to Str("@date:<text>") / Str("@datetime:<text>").
pub fn from_view(v: &dyn ValueView) -> RV {
    if v.is_nil() {
        return RV::Nil;
    }
    if let Some(s) = v.as_state() {
        return match s {
            State::Empty => RV::Empty,
            State::Blank => RV::Blank,
            State::Truthy => RV::Str("@state:truthy".into()),
            State::DefaultValue => RV::Str("@state:default".into()),
        };
    }
    if let Some(a) = v.as_array() {
        return RV::Arr(a.values().map(from_view).collect());
    }
    if let Some(o) = v.as_object() {
        let mut items: Vec<(String, RV)> = o.iter().map(|(k, v)| (k.to_string(), from_view(v))).collect();
        items.sort_by(|a, b| a.0.cmp(&b.0));
        return RV::Obj(items);
    }
    if let Some(s) = v.as_scalar() {
        return match v.type_name() {
            "whole number" => RV::Int(s.to_integer().unwrap_or(0)),
            "fractional number" => RV::Float(F(s.to_float().unwrap_or(f64::NAN))),
            "boolean" => RV::Bool(s.to_bool().unwrap_or(false)),
            "date time" => RV::Str(format!("@datetime:{}", s.to_kstr())),
            "date" => RV::Str(format!("@date:{}", s.to_kstr())),
            _ => RV::Str(s.to_kstr().to_string()),
        };
    }
    RV::Str(format!("@unknown:{}", v.type_name()))
}

impl RV {
    pub fn sorted_keys(&self) -> RV {
        match self {
            RV::Obj(o) => {
                let mut items: Vec<(String, RV)> = o.iter().map(|(k, v)| (k.clone(), v.sorted_keys())).collect();
                items.sort_by(|a, b| a.0.cmp(&b.0));
                RV::Obj(items)
            }
            RV::Arr(a) => RV::Arr(a.iter().map(|x| x.sorted_keys()).collect()),
            o => o.clone(),
        }
    }
}

pub fn obj(items: Vec<(&str, RV)>) -> RV {
    RV::Obj(items.into_iter().map(|(k, v)| (k.to_string(), v)).collect())
}
