//! Engine E6b: the reference-interpreter differentials of C03, C04, C05, C06 and C08 as one
//! coverage-guided fuzz target.  A byte string selects an envelope (first byte, or the envelope
//! forced through VERIF_DIFF_ENVELOPE) and is decoded by that property's `fuzz_case` — the
//! byte-driven twin of its proptest strategy — into the very case type its random sub-check uses;
//! the case goes through that sub-check's own oracle.  A failure is therefore directly a replay
//! file of the existing sub-check (`check <ID> --replay`), which is how fuzz.sh re-judges it.

use crate::astdec::Dec;
use crate::engine::{Failure, Obs};
use crate::props::{c03, c04, c05, c06, c08};
use serde_json::Value as J;

/// (property, sub-check whose case type and oracle are used)
pub const ENVELOPES: [(&str, &str); 5] = [("C03", "templates"), ("C04", "random_programs"), ("C05", "programs"), ("C06", "nested"), ("C08", "scenarios")];

pub struct Judged {
    pub prop: &'static str,
    pub sub: &'static str,
    pub case: J,
    pub result: Result<(), Failure>,
    pub classes: Vec<&'static str>,
    pub nontrivial: bool,
}

/// Decode and judge one input.  `forced` = property id of the envelope to use for every input.
pub fn judge(bytes: &[u8], forced: Option<&str>, want_case: bool) -> Judged {
    let mut d = Dec::new(bytes);
    let k = match forced {
        Some(id) => {
            // keep the byte layout independent of forcing: the selector byte is still consumed
            let _ = d.below(ENVELOPES.len());
            ENVELOPES.iter().position(|e| e.0 == id).unwrap_or(0)
        }
        None => d.below(ENVELOPES.len()),
    };
    let (prop, sub) = ENVELOPES[k];
    let mut obs = Obs::default();
    let j = |c: &dyn erased::Ser| if want_case { c.to_json() } else { J::Null };
    let (case, result) = match prop {
        "C03" => {
            let c = c03::fuzz_case(&mut d);
            (j(&c), c03::oracle(&c, &mut obs))
        }
        "C04" => {
            let c = c04::fuzz_case(&mut d);
            (j(&c), c04::rand_oracle(&c, &mut obs))
        }
        "C05" => {
            let c = c05::fuzz_case(&mut d);
            (j(&c), c05::rand_oracle(&c, &mut obs))
        }
        "C06" => {
            let c = c06::fuzz_case(&mut d);
            (j(&c), c06::oracle(&c, &mut obs))
        }
        _ => {
            let c = c08::fuzz_case(&mut d);
            (j(&c), c08::oracle(&c, &mut obs))
        }
    };
    Judged { prop, sub, case, result, classes: obs.classes.clone(), nontrivial: !obs.nontrivial.is_empty() }
}

mod erased {
    pub trait Ser {
        fn to_json(&self) -> serde_json::Value;
    }
    impl<T: serde::Serialize> Ser for T {
        fn to_json(&self) -> serde_json::Value {
            serde_json::to_value(self).unwrap_or(serde_json::Value::Null)
        }
    }
}

/// Entry point of the libFuzzer target: a failing oracle becomes a crash.
pub fn fuzz_one(bytes: &[u8]) {
    static FORCED: std::sync::OnceLock<Option<String>> = std::sync::OnceLock::new();
    let forced = FORCED.get_or_init(|| std::env::var("VERIF_DIFF_ENVELOPE").ok().filter(|s| !s.is_empty()));
    let r = judge(bytes, forced.as_deref(), false);
    if let Err(f) = r.result {
        panic!("DIFF-VIOLATION property={} sub={} sig={}\n{}", r.prop, r.sub, f.sig, f.detail);
    }
}

/// Deterministic pseudo-random seed inputs (splitmix64 from the seed): libFuzzer ramps input
/// length slowly from an empty corpus, and a decoder that reads zeros produces the empty template.
pub fn seed_corpus(dir: &str, n: u64, seed: u64) -> std::io::Result<()> {
    std::fs::create_dir_all(dir)?;
    let mut s = seed.wrapping_mul(0x9E37_79B9_7F4A_7C15).wrapping_add(0x1234_5678);
    let mut next = move || {
        s = s.wrapping_add(0x9E37_79B9_7F4A_7C15);
        let mut z = s;
        z = (z ^ (z >> 30)).wrapping_mul(0xBF58_476D_1CE4_E5B9);
        z = (z ^ (z >> 27)).wrapping_mul(0x94D0_49BB_1331_11EB);
        z ^ (z >> 31)
    };
    for i in 0..n {
        let len = 64 + (next() % 1472) as usize;
        let mut bytes = Vec::with_capacity(len);
        while bytes.len() < len {
            bytes.extend_from_slice(&next().to_le_bytes());
        }
        bytes.truncate(len);
        std::fs::write(format!("{dir}/rand{i:04}"), bytes)?;
    }
    Ok(())
}
