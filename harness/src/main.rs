//! verif — property-based testing / fuzzing harness for liquid-rust.
//!
//!   verif check <ID> --tier quick|thorough [--replay FILE]
//!   verif list

use verif::{cal, engine, fuzzdiff, lq, props, rv};

use engine::{Ctx, Tier};

/// Run the check in a child process and interpret how it ended.
///   normal exit            -> same exit code
///   exit STALL_EXIT        -> the stalled case is re-run alone: stalls again => VIOLATION (hang), else inconclusive
///   killed by a signal     -> re-run with case tracing, replay the last traced cases one by one: the one that
///                             kills the process again is the VIOLATION (abort); none => inconclusive
fn supervise(id: &str, rest: &[String], is_replay: bool) -> i32 {
    use std::process::Command;
    let exe = std::env::current_exe().expect("exe");
    let scratch = format!("/verif/harness/target/supervise.{}", std::process::id());
    let _ = std::fs::create_dir_all(&scratch);
    let run_child = |extra: &[(&str, String)], args: &[String], timeout_s: Option<u64>| -> (Option<i32>, bool) {
        let mut c = Command::new(&exe);
        c.arg("check").args(args).env("VERIF_INNER", "1");
        for (k, v) in extra {
            c.env(k, v);
        }
        let mut child = c.spawn().expect("spawn worker");
        let start = std::time::Instant::now();
        loop {
            match child.try_wait() {
                Ok(Some(st)) => return (st.code(), false),
                Ok(None) => {
                    if let Some(t) = timeout_s {
                        if start.elapsed().as_secs() > t {
                            let _ = child.kill();
                            let _ = child.wait();
                            return (None, true);
                        }
                    }
                    std::thread::sleep(std::time::Duration::from_millis(50));
                }
                Err(_) => return (Some(3), false),
            }
        }
    };
    let args: Vec<String> = rest.to_vec();
    let (code, _) = run_child(&[("VERIF_STALL_DIR", scratch.clone())], &args, None);
    let keep = |src: &str, kind: &str| -> String {
        let dir = format!("/verif/replays{}/{id}", engine::scratch_suffix());
        let _ = std::fs::create_dir_all(&dir);
        let dst = format!("{dir}/{kind}-{:08x}.json", engine::hash_of(&std::fs::read_to_string(src).unwrap_or_default()) as u32);
        let _ = std::fs::copy(src, &dst);
        dst
    };
    let result = match code {
        Some(c) if c == engine::STALL_EXIT && !is_replay => {
            let stall = format!("{scratch}/stall.json");
            let limit: u64 = std::env::var("VERIF_STALL_LIMIT").ok().and_then(|s| s.parse().ok()).unwrap_or(300);
            let (c2, timed_out) = run_child(&[], &[id.to_string(), "--replay".into(), stall.clone()], Some(limit * 2));
            if timed_out {
                let kept = keep(&stall, "hang");
                println!("VIOLATION property={id} replay={kept}");
                println!("  detail=the case did not terminate within {limit} s in the campaign nor within {} s when run alone (hang)", limit * 2);
                1
            } else {
                println!("INCONCLUSIVE: a case exceeded the {limit} s watchdog during the campaign but finished when run alone (exit {c2:?}); not a violation");
                2
            }
        }
        Some(c) if c == engine::STALL_EXIT => {
            println!("REPLAY-HANG: the case did not terminate within the watchdog limit");
            1
        }
        Some(c) => c,
        None if is_replay => {
            println!("REPLAY-ABORT: the worker process was killed by a signal while replaying this case");
            1
        }
        None => {
            println!("ABORT: the worker process was killed by a signal; re-running with case tracing to find the input");
            let trace = format!("{scratch}/trace");
            let _ = std::fs::create_dir_all(&trace);
            let (c2, _) = run_child(&[("VERIF_TRACE_DIR", trace.clone()), ("VERIF_SCRATCH", "1".into())], &args, None);
            if c2.is_some() {
                println!("INCONCLUSIVE: the abort did not reproduce with tracing on (exit {c2:?})");
                2
            } else {
                let mut found = None;
                if let Ok(rd) = std::fs::read_dir(&trace) {
                    for e in rd.flatten() {
                        let f = e.path().to_string_lossy().to_string();
                        if e.metadata().map(|m| m.len() == 0).unwrap_or(true) {
                            continue;
                        }
                        let (c3, to) = run_child(&[], &[id.to_string(), "--replay".into(), f.clone()], Some(600));
                        if c3.is_none() && !to {
                            found = Some(f);
                            break;
                        }
                    }
                }
                match found {
                    Some(f) => {
                        let kept = keep(&f, "abort");
                        println!("VIOLATION property={id} replay={kept}");
                        println!("  detail=the process is killed by a signal (stack overflow / allocation failure / abort) while executing this case");
                        1
                    }
                    None => {
                        println!("INCONCLUSIVE: the worker aborted twice but no single traced case reproduces it");
                        2
                    }
                }
            }
        }
    };
    let _ = std::fs::remove_dir_all(&scratch);
    result
}

fn usage() -> ! {
    eprintln!("usage: verif check <ID> [--tier quick|thorough] [--replay FILE] | verif list");
    std::process::exit(3);
}

fn main() {
    let args: Vec<String> = std::env::args().collect();
    if args.len() < 2 {
        usage();
    }
    match args[1].as_str() {
        "cal-dump" => {
            // development aid: dump calendar fields for cross-validation against Python datetime
            let step: i64 = args.get(2).and_then(|s| s.parse().ok()).unwrap_or(37);
            let mut d = cal::days_from_civil(1, 1, 1);
            let end = cal::days_from_civil(9999, 12, 31);
            while d <= end {
                let f = cal::fields(d * 86400, 0, 0);
                println!("{} {} {} {} {} {} {} {} {}", f.year, f.month, f.day, f.wday, f.ordinal, f.week_sun, f.week_mon, f.iso_year, f.iso_week);
                d += step;
            }
        }
        "leaktest" => {
            let rss = || std::fs::read_to_string("/proc/self/statm").ok().and_then(|s| s.split_whitespace().nth(1).and_then(|x| x.parse::<u64>().ok())).unwrap_or(0) * 4 / 1024;
            let which = args.get(2).map(|s| s.as_str()).unwrap_or("build");
            let partials = vec![("p".to_string(), "{% assign y = 1 %}{{ x }}".to_string()), ("q".to_string(), "q{{ y }}".to_string())];
            let data = rv::obj(vec![("x", rv::st("X"))]);
            for i in 0..200_000u64 {
                match which {
                    "build" => {
                        let _ = lq::parser_with_partials(lq::Policy::Eager, &partials);
                    }
                    "render" => {
                        let p = lq::parser_with_partials(lq::Policy::Eager, &partials).unwrap().unwrap();
                        let _ = lq::run_rv(&p, "{% include 'p' %}{% for i in (1..3) %}{% include 'q' y: i %}{% endfor %}", &data);
                    }
                    _ => {
                        let p = lq::parser(lq::Conf::Stdlib);
                        let _ = lq::run_rv(&p, "{% for i in (1..3) %}{{ i }}{% endfor %}", &data);
                    }
                }
                if i % 20_000 == 0 {
                    println!("{which} iter {i} rss {} MB", rss());
                }
            }
        }
        "parse-file" => {
            // development aid: parse the file's content under the stdlib configuration
            let text = std::fs::read_to_string(&args[2]).expect("read");
            engine::install_panic_hook();
            let r = lq::with_parser(lq::Conf::Stdlib, |p| lq::parse(p, &text));
            match r {
                Ok(Ok(_)) => println!("OK"),
                Ok(Err(e)) => println!("ERR {}", e.lines().next().unwrap_or("")),
                Err(p) => println!("PANIC {}", p.what),
            }
        }
        "c11-digest" => {
            println!("{}", props::c11::matrix_digest());
        }
        "corpus" => {
            // verif corpus <parse|render> <dir> <n>: seed corpus for the libFuzzer targets
            let (target, dir, n) = (args[2].as_str(), args[3].as_str(), args[4].parse::<u64>().unwrap_or(200));
            std::fs::create_dir_all(dir).expect("corpus dir");
            let strat = props::c01::wellformed();
            for i in 0..n {
                let src = engine::sample_strategy(&strat, i + 1);
                let mut bytes: Vec<u8> = Vec::new();
                if target == "render" {
                    bytes.extend_from_slice(&(i.wrapping_mul(0x9E37_79B9_7F4A_7C15)).to_le_bytes());
                }
                bytes.extend_from_slice(src.as_bytes());
                if bytes.len() <= 2048 {
                    std::fs::write(format!("{dir}/seed{i:04}"), bytes).expect("write seed");
                }
            }
            for (i, t) in props::c01::TAGS.iter().enumerate() {
                let mut bytes: Vec<u8> = if target == "render" { vec![i as u8; 8] } else { vec![] };
                bytes.extend_from_slice(t.as_bytes());
                std::fs::write(format!("{dir}/tag{i:03}"), bytes).expect("write seed");
            }
        }
        "diff-corpus" => {
            // verif diff-corpus <dir> <n>: pseudo-random seed inputs for the `diff` target
            let seed: u64 = std::env::var("VERIF_SEED").ok().and_then(|s| s.trim().parse::<i64>().ok()).map(|x| x as u64).unwrap_or(0);
            fuzzdiff::seed_corpus(&args[2], args[3].parse().unwrap_or(300), seed).expect("write corpus");
        }
        "diff-stats" => {
            // verif diff-stats <dir> [ID]: what the byte decoder makes of a corpus (classes per envelope)
            engine::install_panic_hook();
            let forced = args.get(3).cloned();
            let mut classes: std::collections::BTreeMap<String, u64> = Default::default();
            let (mut n, mut nt, mut fails) = (0u64, 0u64, 0u64);
            let mut samples: Vec<serde_json::Value> = Vec::new();
            let mut files: Vec<_> = std::fs::read_dir(&args[2]).expect("dir").filter_map(|e| e.ok()).map(|e| e.path()).collect();
            files.sort();
            for p in files {
                let Ok(bytes) = std::fs::read(&p) else { continue };
                let r = fuzzdiff::judge(&bytes, forced.as_deref(), samples.len() < 5);
                n += 1;
                if r.nontrivial {
                    nt += 1;
                }
                if r.result.is_err() {
                    fails += 1;
                }
                *classes.entry(format!("envelope {}", r.prop)).or_insert(0) += 1;
                for c in r.classes {
                    *classes.entry(c.to_string()).or_insert(0) += 1;
                }
                if samples.len() < 5 && !r.case.is_null() && r.nontrivial {
                    samples.push(serde_json::json!({"property": r.prop, "sub": r.sub, "case": r.case}));
                }
            }
            println!("{}", serde_json::to_string(&serde_json::json!({"inputs": n, "nontrivial": nt, "oracle_failures": fails, "classes": classes, "samples": samples})).unwrap());
        }
        "fuzz-dict" => {
            for t in props::c01::TOKENS.iter().chain(props::c01::TAGS.iter()) {
                if t.is_ascii() && !t.contains(char::is_control) && !t.contains('"') && !t.contains('\\') && !t.trim().is_empty() {
                    println!("\"{}\"", t);
                }
            }
        }
        "fuzz-case" => {
            // verif fuzz-case <parse|render> <artifact>: turn a libFuzzer artifact into a replay file body
            let bytes = std::fs::read(&args[3]).expect("read artifact");
            let j = if args[2] == "diff" {
                // the envelope is part of the campaign's configuration, not of the bytes
                let r = fuzzdiff::judge(&bytes, std::env::var("VERIF_DIFF_ENVELOPE").ok().filter(|s| !s.is_empty()).as_deref(), true);
                serde_json::json!({"property": r.prop, "sub": r.sub, "case": r.case})
            } else if args[2] == "parse" {
                match std::str::from_utf8(&bytes) {
                    Ok(s) => serde_json::json!({"property": "C01", "sub": "soup", "case": {"src": s}}),
                    Err(_) => serde_json::json!(null),
                }
            } else {
                match props::c02::decode_fuzz_input(&bytes) {
                    Some(p) => serde_json::json!({"property": "C02", "sub": "templates", "case": p}),
                    None => serde_json::json!(null),
                }
            };
            println!("{}", serde_json::to_string_pretty(&j).unwrap());
        }
        "list" => {
            for (id, _) in props::ALL {
                println!("{id}");
            }
        }
        "check" => {
            if args.len() < 3 {
                usage();
            }
            let id = args[2].to_uppercase();
            let mut tier = match std::env::var("VERIF_TIER").as_deref() {
                Ok("thorough") => Tier::Thorough,
                _ => Tier::Quick,
            };
            let mut replay = None;
            let mut i = 3;
            while i < args.len() {
                match args[i].as_str() {
                    "--tier" => {
                        i += 1;
                        tier = match args.get(i).map(|s| s.as_str()) {
                            Some("quick") => Tier::Quick,
                            Some("thorough") => Tier::Thorough,
                            _ => usage(),
                        };
                    }
                    "--replay" => {
                        i += 1;
                        let path = args.get(i).cloned().unwrap_or_else(|| usage());
                        let text = std::fs::read_to_string(&path).unwrap_or_else(|e| {
                            eprintln!("cannot read replay file {path}: {e}");
                            std::process::exit(3)
                        });
                        let j: serde_json::Value = serde_json::from_str(&text).unwrap_or_else(|e| {
                            eprintln!("replay file is not JSON: {e}");
                            std::process::exit(3)
                        });
                        let sub = j["sub"].as_str().unwrap_or("").to_string();
                        replay = Some((sub, j["case"].clone()));
                    }
                    _ => usage(),
                }
                i += 1;
            }
            let seed: u64 = std::env::var("VERIF_SEED").ok().and_then(|s| s.trim().parse::<i64>().ok()).map(|x| x as u64).unwrap_or(0);
            let Some((_, run)) = props::ALL.iter().find(|(pid, _)| *pid == id) else {
                eprintln!("unknown property {id}");
                std::process::exit(3);
            };
            // The work happens in a child process so that an abort (stack overflow, allocation
            // failure) or a hang of the engine under test can be told apart from a clean result.
            if std::env::var("VERIF_INNER").is_err() {
                std::process::exit(supervise(&id, &args[2..], replay.is_some()));
            }
            engine::install_panic_hook();
            if let Ok(dir) = std::env::var("VERIF_STALL_DIR") {
                let limit = std::env::var("VERIF_STALL_LIMIT").ok().and_then(|s| s.parse().ok()).unwrap_or(300);
                engine::start_watchdog(id.clone(), limit, dir);
            }
            let ctx = Ctx::new(&id, tier, seed, replay);
            // A panic escaping here is a harness bug (exit 3), never a violation.
            let r = std::panic::catch_unwind(std::panic::AssertUnwindSafe(|| {
                // regression tier: replay files referenced by "fixed" findings run first
                if ctx.replay.is_none() {
                    for (sub, case, path) in ctx.fixed_replays() {
                        let rctx = Ctx::new(&id, tier, seed, Some((sub, case)));
                        run(&rctx);
                        let n = rctx.violation_count();
                        ctx.adopt_regression(rctx, &path);
                        if n > 0 {
                            println!("REGRESSION: fixed finding returned: {path}");
                        }
                    }
                }
                run(&ctx);
            }));
            if r.is_err() {
                eprintln!("HARNESS-BUG: panic outside guarded engine call");
                std::process::exit(3);
            }
            std::process::exit(ctx.finish());
        }
        _ => usage(),
    }
}
