//! C16 — escape / escape_once / url_encode / url_decode / strip_html are safe and invertible.

use crate::engine::{Check, Ctx, Failure, Obs};
use crate::gen;
use crate::lq::{self, Conf};
use crate::rv::{st, RV};
use proptest::prelude::*;
use serde::{Deserialize, Serialize};

#[derive(Clone, Debug, Serialize, Deserialize)]
pub struct Case {
    pub check: String,
    pub s: String,
}

const ESC: [&str; 14] = ["<", ">", "&", "\"", "'", ";", "#", "a", "l", "t", "m", "p", " ", "é"];
const URL: [&str; 11] = ["%", "+", "2", "F", "f", " ", "/", "é", "😀", "\u{fffd}", "\u{7f}"];
const DEC: [&str; 10] = ["%", "C", "3", "A", "9", "8", "0", "F", "+", "a"];
const HTML: [&str; 12] = ["<", ">", "!", "-", "/", "s", "c", "r", "i", "p", "t", "a"];
// 39 digits etc. appear through "#", "3"? -> the entity &#39; needs '3' and '9'
const ESC2: [&str; 8] = ["&", "#", "3", "9", ";", "q", "u", "o"];

fn count_upto(k: usize, max: usize) -> u64 {
    (0..=max).map(|l| (k as u64).pow(l as u32)).sum()
}
fn nth(alpha: &[&str], mut i: u64, max: usize) -> Option<String> {
    let k = alpha.len() as u64;
    for l in 0..=max {
        let n = k.pow(l as u32);
        if i < n {
            let mut s = String::new();
            for _ in 0..l {
                s.push_str(alpha[(i % k) as usize]);
                i /= k;
            }
            return Some(s);
        }
        i -= n;
    }
    None
}

const ENTITIES: [(&str, char); 5] = [("&lt;", '<'), ("&gt;", '>'), ("&amp;", '&'), ("&quot;", '"'), ("&#39;", '\'')];

/// every special character occurs only as the `&` of one of the five entities
fn safe(out: &str) -> bool {
    let b = out;
    let mut i = 0;
    while i < b.len() {
        let rest = &b[i..];
        let c = rest.chars().next().unwrap();
        match c {
            '<' | '>' | '"' | '\'' => return false,
            '&' => match ENTITIES.iter().find(|(e, _)| rest.starts_with(e)) {
                Some((e, _)) => {
                    i += e.len();
                    continue;
                }
                None => return false,
            },
            _ => {}
        }
        i += c.len_utf8();
    }
    true
}

fn unescape(out: &str) -> String {
    let mut r = String::new();
    let mut i = 0;
    while i < out.len() {
        let rest = &out[i..];
        if let Some((e, c)) = ENTITIES.iter().find(|(e, _)| rest.starts_with(e)) {
            r.push(*c);
            i += e.len();
        } else {
            let c = rest.chars().next().unwrap();
            r.push(c);
            i += c.len_utf8();
        }
    }
    r
}

fn ref_escape_once(s: &str) -> String {
    let mut r = String::new();
    let mut i = 0;
    while i < s.len() {
        let rest = &s[i..];
        let c = rest.chars().next().unwrap();
        match c {
            '<' => r.push_str("&lt;"),
            '>' => r.push_str("&gt;"),
            '"' => r.push_str("&quot;"),
            '\'' => r.push_str("&#39;"),
            '&' => {
                if let Some((e, _)) = ENTITIES.iter().find(|(e, _)| rest.starts_with(e)) {
                    r.push_str(e);
                    i += e.len();
                    continue;
                }
                r.push_str("&amp;");
            }
            c => r.push(c),
        }
        i += c.len_utf8();
    }
    r
}

fn ref_url_decode(s: &str) -> Option<String> {
    let b = s.as_bytes();
    let mut out = Vec::new();
    let mut i = 0;
    let hex = |c: u8| (c as char).to_digit(16);
    while i < b.len() {
        if b[i] == b'+' {
            out.push(b' ');
            i += 1;
        } else if b[i] == b'%' && i + 2 < b.len() + 0 && i + 2 <= b.len() - 1 + 0 {
            match (hex(b[i + 1]), hex(b[i + 2])) {
                (Some(h), Some(l)) => {
                    out.push((h * 16 + l) as u8);
                    i += 3;
                }
                _ => {
                    out.push(b[i]);
                    i += 1;
                }
            }
        } else {
            out.push(b[i]);
            i += 1;
        }
    }
    String::from_utf8(out).ok()
}

fn is_subsequence(small: &str, big: &str) -> bool {
    let mut it = big.chars();
    small.chars().all(|c| it.any(|d| d == c))
}

fn show(r: &lq::R<RV>) -> String {
    match r {
        Ok(Ok(v)) => format!("Ok({})", v.dump()),
        Ok(Err(e)) => format!("Err({:?})", e.lines().next().unwrap_or("")),
        Err(p) => format!("PANIC({})", p.what),
    }
}

fn app(f: &str, s: &str) -> lq::R<RV> {
    lq::apply(Conf::Stdlib, f, &st(s), &[])
}

fn get_str(f: &str, s: &str) -> Result<String, Failure> {
    match app(f, s) {
        Ok(Ok(RV::Str(o))) => Ok(o),
        other => Err(Failure::new(format!("{f}: does not return a string"), format!("input={s:?} got {}", show(&other)))),
    }
}

pub fn oracle(c: &Case, obs: &mut Obs) -> Check {
    let s = &c.s;
    let specials = s.chars().filter(|ch| "<>&\"'%+".contains(*ch)).count();
    if specials >= 1 && specials < s.chars().count() {
        obs.nt(&(c.check.as_str(), s.as_str()));
    }
    match c.check.as_str() {
        "escape" => {
            let o = get_str("escape", s)?;
            if !safe(&o) {
                return Err(Failure::new("escape: output contains an unescaped special character", format!("input={s:?} output={o:?}")));
            }
            if unescape(&o) != *s {
                return Err(Failure::new("escape: replacing the entities back does not yield the input", format!("input={s:?} output={o:?} back={:?}", unescape(&o))));
            }
            Ok(())
        }
        "escape_once" => {
            let o = get_str("escape_once", s)?;
            if s.contains("&amp") || s.contains("&lt") || s.contains("&#39") || s.contains("&quot") || s.contains("&gt") {
                obs.class("entity_or_near_entity");
            }
            if !safe(&o) {
                return Err(Failure::new("escape_once: output contains an unescaped special character", format!("input={s:?} output={o:?}")));
            }
            let e = ref_escape_once(s);
            if o != e {
                return Err(Failure::new("escape_once: existing entities not preserved / others not escaped", format!("input={s:?} output={o:?} expected={e:?}")));
            }
            let twice = get_str("escape_once", &o)?;
            obs.extra_evals += 1;
            if twice != o {
                return Err(Failure::new("escape_once: not idempotent", format!("input={s:?} once={o:?} twice={twice:?}")));
            }
            if !s.contains('&') {
                let plain = get_str("escape", s)?;
                obs.extra_evals += 1;
                if plain != o {
                    return Err(Failure::new("escape_once differs from escape on input without '&'", format!("input={s:?} escape={plain:?} escape_once={o:?}")));
                }
            }
            Ok(())
        }
        "escape_array" => {
            // the input is an array of the string's characters: escaping must still leave nothing raw
            let parts: Vec<RV> = s.chars().map(|ch| st(&ch.to_string())).collect();
            let joined: String = s.clone();
            for f in ["escape", "escape_once"] {
                let got = lq::apply(Conf::Stdlib, f, &RV::Arr(parts.clone()), &[]);
                let rendered = match &got {
                    Ok(Ok(v)) => v.render(),
                    Ok(Err(_)) => continue, // rejecting a non-string input is fine
                    Err(p) => return Err(Failure::new(format!("{f}: panics: {}", p.site()), p.what.clone())),
                };
                if !safe(&rendered) {
                    return Err(Failure::new(format!("{f}: output for an array input contains an unescaped special character"), format!("input chars of {joined:?} output={rendered:?}")));
                }
            }
            Ok(())
        }
        "literal" => {
            // s is the literal including its quotes
            let content = &s[1..s.len() - 1];
            let run = |src: String| lq::with_parser(Conf::Stdlib, |p| lq::run(p, &src, &liquid::Object::new()));
            let esc = run(format!("{{{{ {s} | escape }}}}"));
            let back = match &esc {
                Ok(Ok(e)) if safe(e) => e.replace("&lt;", "<").replace("&gt;", ">").replace("&quot;", "\"").replace("&#39;", "'").replace("&amp;", "&"),
                other => return Err(Failure::new("escape: a literal input is not escaped", format!("literal={s} got={}", lq::show(other)))),
            };
            if back != content {
                return Err(Failure::new("escape: replacing the entities back does not yield the literal's content", format!("literal={s} escaped={} back={back:?}", lq::show(&esc))));
            }
            let rt = run(format!("{{{{ {s} | url_encode | url_decode }}}}"));
            if !matches!(&rt, Ok(Ok(r)) if r == content) {
                return Err(Failure::new("url: url_decode does not invert url_encode for a literal input", format!("literal={s} got={}", lq::show(&rt))));
            }
            Ok(())
        }
        "url" => {
            let o = get_str("url_encode", s)?;
            let mut it = o.chars().peekable();
            while let Some(ch) = it.next() {
                let ok = ch.is_ascii_alphanumeric() || ch == '-' || ch == '.' || ch == '_' || (ch == '%' && it.next().map(|h| h.is_ascii_hexdigit()).unwrap_or(false) && it.next().map(|h| h.is_ascii_hexdigit()).unwrap_or(false));
                if !ok {
                    return Err(Failure::new("url_encode: output contains a character outside [A-Za-z0-9._-] and %HH", format!("input={s:?} output={o:?}")));
                }
            }
            let back = app("url_decode", &o);
            obs.extra_evals += 1;
            match &back {
                Ok(Ok(RV::Str(b))) if b == s => Ok(()),
                _ => Err(Failure::new("url_decode does not invert url_encode", format!("input={s:?} encoded={o:?} decoded={}", show(&back)))),
            }
        }
        "url_decode" => {
            let got = app("url_decode", s);
            if let Err(p) = &got {
                return Err(Failure::new(format!("url_decode: panics: {}", p.site()), format!("input={s:?} {}", p.what)));
            }
            match (ref_url_decode(s), &got) {
                (Some(e), Ok(Ok(RV::Str(g)))) if e == *g => {
                    obs.class("decodes");
                    Ok(())
                }
                (None, Ok(Err(_))) => {
                    obs.class("invalid_utf8_rejected");
                    Ok(())
                }
                (e, _) => Err(Failure::new("url_decode: wrong decoding or missing error on invalid UTF-8", format!("input={s:?} expected={e:?} got={}", show(&got)))),
            }
        }
        "strip_html" => {
            let o = get_str("strip_html", s)?;
            if let Some(p) = o.find('<') {
                if o[p..].contains('>') {
                    return Err(Failure::new("strip_html: output still contains a complete <...> tag", format!("input={s:?} output={o:?}")));
                }
            }
            if !is_subsequence(&o, s) {
                return Err(Failure::new("strip_html: output is not a subsequence of the input", format!("input={s:?} output={o:?}")));
            }
            Ok(())
        }
        _ => Ok(()),
    }
}

fn space(check: &'static str, alpha: &'static [&'static str], max: usize) -> (u64, impl Fn(u64) -> Option<Case> + Sync) {
    (count_upto(alpha.len(), max), move |i| Some(Case { check: check.into(), s: nth(alpha, i, max)? }))
}

pub fn run(ctx: &Ctx) {
    ctx.set_rule("E2: all strings up to length 4 (thorough 5) over {< > & \" ' ; # a l t m p space e-acute} and up to 6 (7) over {& # 3 9 ; q u o} for escape/escape_once, up to 4 (5) over {% + 2 F f space / e-acute emoji} for url_encode+url_decode, up to 4 (6) over {% C 3 A 9 8 0 F + a} for url_decode alone, up to 5 (6) over {< > ! - / s c r i p t a} for strip_html; E1: random long strings. Oracles: safety scan + inverse (escape), independent reference (escape_once, url_decode), charset + round trip (url_encode), no complete tag + subsequence (strip_html). Non-trivial = input holds at least one special and one other symbol; distinct by (check, input).");
    let (e1, e2, u, d, h) = (ctx.pick(4, 5), ctx.pick(6, 7), ctx.pick(4, 5), ctx.pick(4, 6), ctx.pick(5, 6));
    for check in ["escape", "escape_once"] {
        let (n, f) = space(check, &ESC, e1);
        ctx.exhaustive(&format!("{check}_alpha1"), n, f, oracle);
        let (n, f) = space(check, &ESC2, e2);
        ctx.exhaustive(&format!("{check}_alpha2"), n, f, oracle);
    }
    let (n, f) = space("escape_array", &ESC, 3);
    ctx.exhaustive("escape_array_input", n, f, oracle);
    // inputs written as template literals whose content begins / ends with the other quote character
    {
        let mut v = Vec::new();
        for (q, o) in [('\'', '"'), ('"', '\'')] {
            for c in [format!("{o}"), format!("{o}{o}"), format!("{o}a"), format!("a{o}"), format!("{o}a{o}"), format!("onclick={o}go(){o}"), format!("{o}<&>{o}"), format!("{o} %2F+{o}")] {
                v.push(Case { check: "literal".into(), s: format!("{q}{c}{q}") });
            }
        }
        ctx.cases("literal_inputs", v, oracle);
    }
    let (n, f) = space("url", &URL, u);
    ctx.exhaustive("url_roundtrip", n, f, oracle);
    let (n, f) = space("url_decode", &DEC, d);
    ctx.exhaustive("url_decode", n, f, oracle);
    let (n, f) = space("strip_html", &HTML, h);
    ctx.exhaustive("strip_html", n, f, oracle);
    ctx.random("random", ctx.pick(500_000, 50_000_000), || {
        let frag = prop_oneof![
            3 => proptest::sample::select(vec!["&amp;", "&lt;", "&gt;", "&quot;", "&#39;", "&amp", "&#39", "&", "<", ">", "\"", "'", "<script>", "</script>", "<!--", "-->", "<style>", "</STYLE>", "<b>", "%C3%A9", "%C3", "%", "+", "%2B", "%ff", "%zz"]).prop_map(|s| s.to_string()),
            2 => gen::text(6),
        ];
        (proptest::sample::select(vec!["escape", "escape_once", "url", "url_decode", "strip_html"]), proptest::collection::vec(frag, 0..12)).prop_map(|(check, v)| Case { check: check.into(), s: v.concat() })
    }, oracle);
}
