//! C07 — variable paths and literals denote the right value or fail loudly.

use crate::ast::*;
use crate::engine::{decode, Check, Ctx, Failure, Obs};
use crate::gen;
use crate::lq::{self, Conf};
use crate::props::c03::differential;
use crate::rv::{obj, st, RV};
use proptest::prelude::*;
use serde::{Deserialize, Serialize};

#[derive(Clone, Debug, Serialize, Deserialize)]
pub struct PathCase {
    pub e: Expr,
    pub data: RV,
}

fn leaves(tag: &str, n: usize) -> RV {
    RV::Arr((0..n).map(|i| st(&format!("{tag}{i}"))).collect())
}

/// data with distinct tagged leaves so that a neighbouring element is distinguishable
pub fn fixed_data() -> RV {
    let mut items: Vec<(String, RV)> = Vec::new();
    for n in 0..=5 {
        items.push((format!("a{n}"), leaves(&format!("A{n}_"), n)));
    }
    items.push((
        "o".into(),
        obj(vec![("k", leaves("OK", 3)), ("size", st("own-size")), ("first", st("own-first")), ("2", st("two")), ("e", RV::Arr(vec![]))]),
    ));
    items.push(("p".into(), obj(vec![("k", obj(vec![("k", leaves("PKK", 2)), ("q", st("pkq"))]))])));
    items.push((
        "aa".into(),
        RV::Arr(vec![obj(vec![("k", leaves("AAK", 2)), ("j", st("aaj"))]), leaves("AA1_", 4), st("aa2"), RV::Arr(vec![leaves("AA3_", 2), RV::Arr(vec![])]), RV::Nil]),
    ));
    for i in -3..=3i64 {
        items.push((format!("i_{}", if i < 0 { format!("m{}", -i) } else { i.to_string() }), RV::Int(i)));
    }
    items.push(("n".into(), obj(vec![("i", RV::Int(1)), ("k", st("k"))])));
    items.push(("u".into(), obj(vec![(&*format!("x{}", "é".repeat(40)), st("long-key-leaf")), ("k", leaves("UK", 1))])));
    items.push(("lv".into(), st(&format!("x{}", "é".repeat(40)))));
    items.push(("kv".into(), st("k")));
    items.push(("sv".into(), st("size")));
    items.push(("fv".into(), st("first")));
    RV::Obj(items)
}

const BASES: [&str; 10] = ["a0", "a1", "a2", "a3", "a5", "o", "aa", "p", "nope", "u"];

fn step_pool() -> Vec<Step> {
    let mut v = Vec::new();
    for k in ["k", "zz", "size", "first", "last", "j"] {
        v.push(Step::Dot(k.into()));
    }
    for i in -7..=6i64 {
        v.push(Step::Idx(Expr::int(i)));
    }
    for name in ["i_m3", "i_m2", "i_m1", "i_0", "i_1", "i_2", "i_3"] {
        v.push(Step::Idx(Expr::var(name)));
    }
    v.push(Step::Idx(Expr::path("n", &["i"])));
    v.push(Step::Idx(Expr::path("n", &["k"])));
    for k in ["k", "zz", "size", "first", "2"] {
        v.push(Step::Idx(Expr::str(k)));
    }
    v.push(Step::Idx(Expr::Lit(Lit::Str("k".into(), true))));
    v.push(Step::Idx(Expr::str(&format!("x{}", "é".repeat(40)))));
    v.push(Step::Idx(Expr::str(&format!("y{}", "é".repeat(40)))));
    for name in ["kv", "sv", "fv", "lv", "undefined_index"] {
        v.push(Step::Idx(Expr::var(name)));
    }
    v
}


/// Keys that read as integers but are not in canonical form sit next to their canonical twins:
/// a bracket step must select the member whose key is exactly the string given (literal in
/// either quote style, variable, nested path), never the neighbour `7` for `'007'`.
fn noncanonical_key_cases() -> Vec<PathCase> {
    let keys = ["007", "7", "+1", "1", "-0", "0", "00", "1e1", "10", " 3", "3", "0x10", "16", "9223372036854775808", "-9223372036854775809"];
    let g = RV::Obj(keys.iter().map(|k| (k.to_string(), st(&format!("leaf<{k}>")))).collect());
    let mut items: Vec<(String, RV)> = vec![("g".into(), g.clone()), ("w".into(), RV::Arr(vec![g.clone()])), ("h".into(), obj(vec![("g", g)]))];
    for (i, k) in keys.iter().enumerate() {
        items.push((format!("kv{i}"), st(k)));
    }
    items.push(("ks".into(), RV::Arr(keys.iter().map(|k| st(k)).collect())));
    let data = RV::Obj(items);
    let mut v = Vec::new();
    for (i, k) in keys.iter().enumerate() {
        let forms: Vec<Expr> = vec![
            Expr::Lit(Lit::Str(k.to_string(), false)),
            Expr::Lit(Lit::Str(k.to_string(), true)),
            Expr::var(&format!("kv{i}")),
            Expr::Var(Var { root: "ks".into(), steps: vec![Step::Idx(Expr::int(i as i64))] }),
        ];
        for f in forms {
            v.push(PathCase { e: Expr::Var(Var { root: "g".into(), steps: vec![Step::Idx(f.clone())] }), data: data.clone() });
            v.push(PathCase { e: Expr::Var(Var { root: "w".into(), steps: vec![Step::Idx(Expr::int(0)), Step::Idx(f.clone())] }), data: data.clone() });
            v.push(PathCase { e: Expr::Var(Var { root: "h".into(), steps: vec![Step::Dot("g".into()), Step::Idx(f)] }), data: data.clone() });
        }
    }
    v
}

fn path_oracle(c: &PathCase, obs: &mut Obs) -> Check {
    let Expr::Var(v) = &c.e else { return Ok(()) };
    let negative_or_special = v.steps.iter().any(|s| match s {
        Step::Idx(Expr::Lit(Lit::Int(i))) => *i < 0 || *i > 4,
        Step::Dot(k) => matches!(k.as_str(), "size" | "first" | "last"),
        _ => true,
    });
    if v.steps.len() >= 2 || negative_or_special {
        obs.nt(&(print_expr(&c.e), c.data.dump().len()));
    }
    let nodes = vec![Node::Text("<".into()), Node::Out { e: c.e.clone(), filters: vec![], t: Tr::PLAIN }, Node::Text(">".into())];
    differential(&nodes, &c.data, &[], obs, "path")?;
    // the same path at the head of a filter chain: a step that does not exist is an error there too
    // (status only: how `append` stringifies arrays and objects is C13's business)
    let (expected, _) = crate::interp::run(&nodes, &c.data, &[]);
    let src = format!("<{{{{ {} | append: '!' }}}}>", print_expr(&c.e));
    let got = lq::with_parser(Conf::Stdlib, |p| lq::run_rv(p, &src, &c.data));
    obs.extra_evals += 1;
    match (&expected, &got) {
        (_, Err(p)) => Err(Failure::new(format!("path(filtered): engine panics: {}", p.site()), format!("src={src:?} {}", p.what))),
        (Err(crate::interp::Stop::Error(e)), Ok(Ok(g))) => Err(Failure::new("path(filtered): a step that does not exist renders instead of failing when a filter follows", format!("src={src:?} reference error={e} got=Ok({g:?})"))),
        (Ok(e), Ok(Err(g))) => Err(Failure::new("path(filtered): an existing path fails when a filter follows", format!("src={src:?} unfiltered reference output={e:?} got=Err({})", g.lines().next().unwrap_or("")))),
        _ => Ok(()),
    }
}

fn paths_nth(i: u64, pool: &[Step], data: &RV, len: usize) -> Option<PathCase> {
    let n = pool.len() as u64;
    let mut radices = vec![BASES.len() as u64];
    radices.extend(std::iter::repeat(n).take(len));
    let d = decode(i, &radices)?;
    let steps = d[1..].iter().map(|s| pool[*s as usize].clone()).collect();
    Some(PathCase { e: Expr::Var(Var { root: BASES[d[0] as usize].into(), steps }), data: data.clone() })
}

// ---- a path is resolved in the innermost binding of its root: when assign / capture / a loop
// variable rebinds a name that the caller's data binds to an object, a step missing in the new
// value is an error even though the shadowed object has it

#[derive(Clone, Debug, Serialize, Deserialize)]
pub struct Shadowed {
    pub nodes: Vec<Node>,
}

fn shadowed_paths() -> Vec<Shadowed> {
    let out = |keys: &[&str]| Node::Out { e: Expr::path("x", keys), filters: vec![], t: Tr::PLAIN };
    let mut v = Vec::new();
    for keys in [&["a"][..], &["a", "b"], &["c"], &["size"], &["first"]] {
        for rebind in 0..6 {
            let probe = vec![Node::Text("<".into()), out(keys), Node::Text(">".into())];
            let nodes = match rebind {
                0 => vec![Node::Assign { name: "x".into(), e: Expr::str("s"), filters: vec![], t: Tr::PLAIN }].into_iter().chain(probe).collect(),
                1 => vec![Node::Assign { name: "x".into(), e: Expr::var("other"), filters: vec![], t: Tr::PLAIN }].into_iter().chain(probe).collect(),
                2 => vec![Node::Capture { name: "x".into(), body: vec![Node::Text("cap".into())], open: Tr::PLAIN, close: Tr::PLAIN }].into_iter().chain(probe).collect(),
                3 => vec![Node::For { var: "x".into(), coll: Coll::Expr(Expr::var("items")), limit: None, offset: None, reversed: false, body: probe, else_: None, open: Tr::PLAIN, close: Tr::PLAIN }],
                4 => vec![Node::Assign { name: "x".into(), e: Expr::int(5), filters: vec![], t: Tr::PLAIN }, Node::If { arms: vec![(Cond::lit(true), probe, Tr::PLAIN)], else_: None, close: Tr::PLAIN }],
                _ => probe,
            };
            v.push(Shadowed { nodes });
        }
    }
    v
}

fn shadowed_oracle(c: &Shadowed, obs: &mut Obs) -> Check {
    obs.nt(&print(&c.nodes));
    let data = obj(vec![
        ("x", obj(vec![("a", obj(vec![("b", st("outer-ab"))])), ("c", st("outer-c"))])),
        ("other", obj(vec![("c", st("other-c"))])),
        ("items", RV::Arr(vec![obj(vec![("c", st("item-c"))])])),
    ]);
    differential(&c.nodes, &data, &[], obs, "path(shadowed root)")
}

// ---- string literals whose content begins or ends with the *other* quote character, in every
// position a literal can stand: printed, as a filter argument, as a bracket key, in a comparison

#[derive(Clone, Debug, Serialize, Deserialize)]
pub struct QuoteEdge {
    pub src: String,
    pub expected: String,
}

fn quote_edge_cases() -> Vec<QuoteEdge> {
    let mut v = Vec::new();
    for (q, o) in [('\'', '"'), ('"', '\'')] {
        let contents = [format!("{o}"), format!("{o}{o}"), format!("{o}a"), format!("a{o}"), format!("{o}a{o}"), format!("{o} "), format!(" {o}"), format!("{o}{o}a{o}{o}"), format!("é{o}"), format!("{o}é")];
        for c in contents {
            let lit = format!("{q}{c}{q}");
            v.push(QuoteEdge { src: format!("<{{{{ {lit} }}}}>"), expected: format!("<{c}>") });
            v.push(QuoteEdge { src: format!("<{{{{ 'x' | append: {lit} }}}}>"), expected: format!("<x{c}>") });
            v.push(QuoteEdge { src: format!("<{{{{ {lit} | size }}}}>"), expected: format!("<{}>", c.chars().count()) });
            v.push(QuoteEdge { src: format!("{{% assign s = {lit} %}}<{{{{ s }}}}>"), expected: format!("<{c}>") });
            v.push(QuoteEdge { src: format!("{{% if {lit} == k %}}same{{% else %}}differs{{% endif %}}"), expected: "same".into() });
            v.push(QuoteEdge { src: format!("<{{{{ o[{lit}] }}}}>"), expected: "<found>".into() });
            v.push(QuoteEdge { src: format!("{{% case k %}}{{% when {lit} %}}hit{{% else %}}miss{{% endcase %}}"), expected: "hit".into() });
        }
    }
    v
}

fn quote_edge_oracle(c: &QuoteEdge, obs: &mut Obs) -> Check {
    obs.nt(&c.src);
    // the content is recovered from the source: between the first quote character and its partner
    let start = c.src.find(['\'', '"']).unwrap_or(0);
    let q = c.src[start..].chars().next().unwrap_or('\'');
    let rest = &c.src[start + 1..];
    // the literal under test is the LAST literal of the source for the append form, the first otherwise
    let content = if c.src.contains("'x' | append: ") {
        let s2 = &c.src[c.src.find("append: ").unwrap() + 8..];
        let q2 = s2.chars().next().unwrap();
        s2[1..].split(q2).next().unwrap_or("").to_string()
    } else {
        rest.split(q).next().unwrap_or("").to_string()
    };
    let data = obj(vec![("k", st(&content)), ("o", RV::Obj(vec![(content.clone(), st("found"))]))]);
    let got = lq::with_parser(Conf::Stdlib, |p| lq::run_rv(p, &c.src, &data));
    match &got {
        Ok(Ok(s)) if *s == c.expected => Ok(()),
        Err(p) => Err(Failure::new(format!("literal: panics: {}", p.site()), format!("src={:?} {}", c.src, p.what))),
        other => Err(Failure::new("literal: a string literal that begins or ends with the other quote character does not denote its content", format!("src={:?} expected={:?} got={}", c.src, c.expected, lq::show(other)))),
    }
}

// ---- literals

#[derive(Clone, Debug, Serialize, Deserialize)]
pub struct LitCase {
    /// literal source text placed inside `{{ }}`
    pub text: String,
    pub kind: String,
}

fn lit_oracle(c: &LitCase, obs: &mut Obs) -> Check {
    obs.nt(&c.text);
    let src = format!("{{{{ {} }}}}", c.text);
    let got = lq::with_parser(Conf::Stdlib, |p| lq::run(p, &src, &liquid::Object::new()));
    let out = match &got {
        Ok(Ok(s)) => s.clone(),
        _ => return Err(Failure::new(format!("literal ({}) does not render", c.kind), format!("src={src:?} got={}", lq::show(&got)))),
    };
    let ok = match c.kind.as_str() {
        "int" => c.text.trim_start_matches('+').parse::<i128>().ok() == out.parse::<i128>().ok() && out.parse::<i128>().is_ok(),
        "float" => match (c.text.trim_start_matches('+').parse::<f64>(), out.parse::<f64>()) {
            (Ok(a), Ok(b)) => a == b || (a == 0.0 && b == 0.0),
            _ => false,
        },
        "str" => out == c.text[1..c.text.len() - 1],
        "true" => out == "true",
        "false" => out == "false",
        "nil" => out.is_empty(),
        _ => true,
    };
    if ok {
        Ok(())
    } else {
        Err(Failure::new(format!("literal ({}) prints as a different value", c.kind), format!("src={src:?} output={out:?}")))
    }
}

fn int_literals() -> Vec<LitCase> {
    let mut v: Vec<String> = Vec::new();
    for i in [i64::MIN, i64::MIN + 1, -(1 << 53), -1, 0, 1, 5, 1 << 53, i64::MAX - 1, i64::MAX] {
        v.push(i.to_string());
    }
    for t in ["-0", "+0", "+5", "+9223372036854775807", "007", "-007", "+00"] {
        v.push(t.to_string());
    }
    // log-spaced sweep
    let mut x: i128 = 1;
    while x < i64::MAX as i128 {
        for d in [-1i128, 0, 1] {
            let y = x + d;
            if y <= i64::MAX as i128 {
                v.push(y.to_string());
                v.push((-y).to_string());
            }
        }
        x = x * 3 + 1;
    }
    v.into_iter().map(|text| LitCase { text, kind: "int".into() }).collect()
}

fn any_data_and_path() -> BoxedStrategy<PathCase> {
    // data: random nested value bound to `d`; path: a walk that mostly follows the data
    (gen::value_rv(4, 5), proptest::collection::vec((any::<u16>(), 0u8..10), 1..5))
        .prop_map(|(data, walk)| {
            let mut cur = Some(data.clone());
            let mut steps = Vec::new();
            for (r, mode) in walk {
                let r = r as usize;
                let step = match (&cur, mode) {
                    (Some(RV::Arr(a)), 0..=5) if !a.is_empty() => {
                        let n = a.len() as i64;
                        let i = (r as i64 % (2 * n + 4)) - n - 2;
                        if mode < 2 { Step::Idx(Expr::int(i)) } else { Step::Idx(Expr::int(i.rem_euclid(n))) }
                    }
                    (Some(RV::Arr(_)), _) => Step::Dot(["first", "last", "size", "zz"][r % 4].into()),
                    (Some(RV::Obj(o)), 0..=6) if !o.is_empty() => {
                        let k = &o[r % o.len()].0;
                        if k.chars().all(|c| c.is_ascii_alphabetic()) && mode < 4 { Step::Dot(k.clone()) } else { Step::Idx(Expr::str(k)) }
                    }
                    (Some(RV::Obj(_)), _) => Step::Dot(["size", "zz", "first"][r % 3].into()),
                    _ => Step::Dot(["size", "a", "first"][r % 3].into()),
                };
                cur = match (&cur, &step) {
                    (Some(c), Step::Dot(k)) => crate::interp::step(c, &st(k)).ok(),
                    (Some(c), Step::Idx(Expr::Lit(Lit::Int(i)))) => crate::interp::step(c, &RV::Int(*i)).ok(),
                    (Some(c), Step::Idx(Expr::Lit(Lit::Str(s, _)))) => crate::interp::step(c, &st(s)).ok(),
                    _ => None,
                };
                steps.push(step);
            }
            PathCase { e: Expr::Var(Var { root: "d".into(), steps }), data: obj(vec![("d", data)]) }
        })
        .boxed()
}

pub fn run(ctx: &Ctx) {
    ctx.set_rule("E2: every path of 1..3 steps (thorough: a strided slice of 4 steps) from 10 base variables (arrays of length 0,1,2,3,5; an object owning its own size/first/integer-looking keys; nested arrays-in-objects-in-arrays; an undefined name) over a 46-step pool (incl. 40-character non-ASCII keys, present and absent: error messages echo them): .key (existing, missing, size/first/last), [i] for every literal i in -7..6, [var] holding -3..3, [nested.path], ['key'] in both quote styles, [var] holding a key or special name, [undefined]; leaves are distinct tagged strings. Literals: integers at the 64-bit boundaries, signed/zero-padded forms and a log-spaced sweep, decimals with 1..6 fraction digits, strings in both quote styles over the full text generator without the closing quote, true/false/nil. E1: random nested data with guided random walks. Oracle: reference interpreter (Ok(value) / Err). Non-trivial = path of >= 2 steps or a negative / out-of-range / special step; distinct by path.");
    ctx.assume("printing an object, an integer-looking string used as an array index and .size of a non-ASCII string are not compared");
    let pool = step_pool();
    let data = fixed_data();
    let n = pool.len() as u64;
    let b = BASES.len() as u64;
    for len in 0..=3usize {
        let total = b * n.pow(len as u32);
        let (pool, data) = (&pool, &data);
        ctx.exhaustive(&format!("paths_len{len}"), total, move |i| paths_nth(i, pool, data, len), path_oracle);
    }
    {
        let (pool, data) = (&pool, &data);
        ctx.strided("paths_len4_slice", b * n.pow(4), ctx.pick(61, 2), move |i| paths_nth(i, pool, data, 4), path_oracle);
    }
    ctx.cases("noncanonical_integer_keys", noncanonical_key_cases(), path_oracle);
    ctx.cases("shadowed_paths", shadowed_paths(), shadowed_oracle);
    ctx.cases("int_literals", int_literals(), lit_oracle);
    ctx.cases("quote_edge_literals", quote_edge_cases(), quote_edge_oracle);
    ctx.random("literals", ctx.pick(200_000, 5_000_000), || {
        prop_oneof![
            2 => any::<i64>().prop_map(|i| LitCase { text: i.to_string(), kind: "int".into() }),
            2 => (any::<bool>(), 0u64..1_000_000_000, 1usize..=6, 0u32..1_000_000).prop_map(|(neg, int, digits, frac)| {
                let frac = frac % 10u32.pow(digits as u32);
                LitCase { text: format!("{}{int}.{frac:0digits$}", if neg { "-" } else { "" }), kind: "float".into() }
            }),
            3 => (gen::text(20), any::<bool>()).prop_map(|(s, dq)| {
                let q = if dq { '"' } else { '\'' };
                let s: String = s.chars().filter(|c| *c != q).collect();
                LitCase { text: format!("{q}{s}{q}"), kind: "str".into() }
            }),
            1 => proptest::sample::select(vec![("true", "true"), ("false", "false"), ("nil", "nil"), ("null", "nil")]).prop_map(|(t, k)| LitCase { text: t.into(), kind: k.into() }),
        ]
    }, lit_oracle);
    ctx.random("random_walks", ctx.pick(400_000, 15_000_000), any_data_and_path, path_oracle);
}
