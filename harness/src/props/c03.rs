//! C03 — literal text, trim markers, raw, comment.

use crate::ast::*;
use crate::astgen::{self, GenCfg};
use crate::engine::{decode, Check, Ctx, Failure, Obs};
use crate::gen;
use crate::interp::{self, Stop};
use crate::lq::{self, Conf};
use crate::rv::{obj, st, RV};
use proptest::prelude::*;
use serde::{Deserialize, Serialize};
use serde_json::json;

#[derive(Clone, Debug, Serialize, Deserialize)]
pub struct Case {
    pub nodes: Vec<Node>,
}

pub fn data() -> RV {
    obj(vec![("x", st("X")), ("y", RV::Int(7)), ("z", RV::Arr(vec![RV::Int(1), st("b")])), ("i", st("I")), ("j", st("J"))])
}

fn probes() -> Vec<Node> {
    let mut v = vec![Node::Text("[".into())];
    for n in ["x", "y", "z"] {
        v.push(Node::Out { e: Expr::var(n), filters: vec![], t: Tr::PLAIN });
        v.push(Node::Text("|".into()));
    }
    v.push(Node::Incr { name: "x".into(), t: Tr::PLAIN });
    v.push(Node::Incr { name: "y".into(), t: Tr::PLAIN });
    v.push(Node::Text("]".into()));
    v
}

/// Compare the engine's rendering of the printed AST with the reference interpreter.
pub fn differential(nodes: &[Node], data: &RV, partials: &[(String, interp::PartialDef)], obs: &mut Obs, what: &str) -> Check {
    let src = print(nodes);
    let (expected, _stats) = interp::run(nodes, data, partials);
    if expected == Err(Stop::Budget) || (expected.is_err() && !interp::cost_ok(&resolve_trim(nodes), data, partials)) {
        // explosive program (the reference stopped early, the engine would not): never run it
        obs.class("over_budget_skipped");
        return Ok(());
    }
    let got = lq::with_parser(Conf::Stdlib, |p| lq::run_rv(p, &src, data));
    obs.sample_with(|| json!({"src": src, "expected": format!("{expected:?}"), "got": lq::show(&got)}));
    match (&expected, &got) {
        (_, Err(p)) => Err(Failure::new(format!("{what}: engine panics: {}", p.site()), format!("src={src:?} panic={}", p.what))),
        (Err(Stop::Budget), _) => Ok(()),
        (Err(Stop::Unsupported(_)), _) => {
            obs.class("unsupported_by_reference");
            Ok(())
        }
        (Ok(e), Ok(Ok(g))) => {
            if e == g {
                obs.class("both_ok");
                if what == "text" {
                    // the same bytes arrive, in order, through a writer that takes 3 bytes at a time
                    let streamed = lq::with_parser(Conf::Stdlib, |p| lq::run_streamed(p, &src, &data.to_object(), 3));
                    obs.extra_evals += 1;
                    if !matches!(&streamed, Ok(Ok(s)) if s == g) {
                        return Err(Failure::new("text: streaming render through a short-writing sink differs from render()", format!("src={src:?}\n render={g:?}\n streamed={}", lq::show(&streamed))));
                    }
                }
                Ok(())
            } else {
                Err(Failure::new(format!("{what}: output differs from reference"), format!("src={src:?}\n expected={e:?}\n      got={g:?}")))
            }
        }
        (Err(Stop::Error(_)), Ok(Err(_))) => {
            obs.class("both_err");
            Ok(())
        }
        (Ok(e), Ok(Err(g))) => Err(Failure::new(format!("{what}: engine fails where reference renders"), format!("src={src:?}\n expected=Ok({e:?})\n got=Err({g})"))),
        (Err(Stop::Error(e)), Ok(Ok(g))) => Err(Failure::new(format!("{what}: engine renders where reference fails"), format!("src={src:?}\n expected=Err({e})\n got=Ok({g:?})"))),
    }
}

pub fn oracle(c: &Case, obs: &mut Obs) -> Check {
    let mut nodes = c.nodes.clone();
    nodes.extend(probes());
    let nodes = normalize(nodes);
    let src = print(&nodes);
    if print(&resolve_trim(&nodes)) != src {
        obs.nt(&src);
        obs.class("trim_effective");
    }
    if has_lookalike(&nodes) {
        obs.nt(&src);
        obs.class("raw_or_comment_lookalike");
    }
    differential(&nodes, &data(), &[], obs, "text")
}

fn has_lookalike(nodes: &[Node]) -> bool {
    nodes.iter().any(|n| match n {
        Node::Raw { body, .. } | Node::Comment { body, .. } => body.contains('{'),
        Node::Capture { body, .. } | Node::IfChanged { body, .. } | Node::TableRow { body, .. } => has_lookalike(body),
        Node::If { arms, else_, .. } => arms.iter().any(|a| has_lookalike(&a.1)) || else_.as_ref().map(|e| has_lookalike(&e.0)).unwrap_or(false),
        Node::Unless { body, else_, .. } | Node::For { body, else_, .. } => has_lookalike(body) || else_.as_ref().map(|e| has_lookalike(&e.0)).unwrap_or(false),
        Node::Case { whens, else_, .. } => whens.iter().any(|w| has_lookalike(&w.body)) || else_.as_ref().map(|e| has_lookalike(&e.0)).unwrap_or(false),
        _ => false,
    })
}

fn cfg() -> GenCfg {
    GenCfg { unicode_text: true, cycle: false, ifchanged: false, paths: false, filters: vec![], forloop_refs: false, coll_names: vec!["z"], wild_ranges: false, ops: vec!["==", "!=", "<>", "<", ">", "<=", ">="], ..GenCfg::all() }
}

fn strategy() -> BoxedStrategy<Case> {
    astgen::nodes(&cfg(), 8).prop_map(|nodes| Case { nodes }).boxed()
}

/// No markup at all: must render to itself.
#[derive(Clone, Debug, Serialize, Deserialize)]
pub struct Plain {
    pub text: String,
}

fn plain_oracle(c: &Plain, obs: &mut Obs) -> Check {
    if c.text.chars().any(|ch| !ch.is_ascii()) || c.text.contains(['{', '}', '%']) {
        obs.nt(&c.text);
    }
    let got = lq::with_parser(Conf::Stdlib, |p| lq::run(p, &c.text, &liquid::Object::new()));
    match got {
        Ok(Ok(s)) if s == c.text => {}
        other => return Err(Failure::new("markup-free template does not render to itself", format!("text={:?} got={}", c.text, lq::show(&other)))),
    }
    for chunk in [1usize, 7] {
        let streamed = lq::with_parser(Conf::Stdlib, |p| lq::run_streamed(p, &c.text, &liquid::Object::new(), chunk));
        obs.extra_evals += 1;
        if !matches!(&streamed, Ok(Ok(s)) if *s == c.text) {
            return Err(Failure::new("markup-free template is not streamed byte-for-byte to a short-writing sink", format!("text={:?} chunk={chunk} got={}", c.text, lq::show(&streamed))));
        }
    }
    Ok(())
}

// ---- E2: single tag, all marker combinations x adjacent whitespace pairs

const WS: [&str; 7] = ["", " ", "\t", "\n", "\r", "\r\n", " \t\n"];

fn single_tag(i: u64) -> Option<Case> {
    let d = decode(i, &[7, 2, 2, 2, 2, 7, 7, 7, 7])?;
    let (shape, ol, or, cl, cr) = (d[0], d[1] == 1, d[2] == 1, d[3] == 1, d[4] == 1);
    let (w1, w2, w3, w4) = (WS[d[5] as usize], WS[d[6] as usize], WS[d[7] as usize], WS[d[8] as usize]);
    let open = Tr::new(ol, or);
    let close = Tr::new(cl, cr);
    let inner = vec![Node::Text(format!("{w2}m{w3}"))];
    let simple = shape < 2;
    if simple && (cl || cr || d[6] != 0 || d[7] != 0) {
        return None; // simple tags have two sides only
    }
    let node = match shape {
        0 => Node::Out { e: Expr::int(1), filters: vec![], t: open },
        1 => Node::Assign { name: "x".into(), e: Expr::int(2), filters: vec![], t: open },
        2 => Node::If { arms: vec![(Cond::lit(true), inner, open)], else_: None, close },
        3 => Node::For { var: "i".into(), coll: Coll::Range(Expr::int(1), Expr::int(2)), limit: None, offset: None, reversed: false, body: inner, else_: None, open, close },
        4 => Node::Capture { name: "y".into(), body: inner, open, close },
        5 => Node::Raw { body: if d[5] % 2 == 0 { format!("{w2}{{{{ x }}}}{w3}") } else { format!("{w2}a{{% endraw x %}}{w3}") }, open, close },
        _ => Node::Comment { body: format!("{w2}{{{{ x }}}}{w3}"), open, close },
    };
    Some(Case { nodes: vec![Node::Text(format!("a{w1}")), node, Node::Text(format!("{w4}b"))] })
}

/// The one shape excluded from the general raw-body generator (astgen::close_quotes_in_lookalikes),
/// enumerated: tag-like text with an unterminated quote inside a raw body, a matching quote and a
/// delimiter end later in the file.  By the statement the body is verbatim and ends at the first
/// `{% endraw %}`.
#[derive(Clone, Debug, Serialize, Deserialize)]
pub struct RawQuote {
    pub src: String,
    pub expected: String,
}

fn raw_quote_cases() -> Vec<RawQuote> {
    let mut v = Vec::new();
    for opener in ["{% if x", "{{ ", "{%- assign a = ", "{{ y | append: "] {
        for q in ['\'', '"'] {
            for inner in ["", "a b"] {
                for tail in ["{q}%}", " {q} }}", "x{q} -%} tail", " tail without delimiter {q}", "{q}{q}"] {
                    let tail = tail.replace("{q}", &q.to_string());
                    for (open, close) in [("{% raw %}", "{% endraw %}"), ("{%raw%}", "{%endraw%}")] {
                        let body = format!("{opener}{q}{inner}");
                        v.push(RawQuote { src: format!("<{open}{body}{close}>{tail}"), expected: format!("<{body}>{tail}") });
                        v.push(RawQuote { src: format!("{{% if true %}}<{open}{body}{close}>{{% endif %}}{tail}"), expected: format!("<{body}>{tail}") });
                    }
                }
            }
        }
    }
    v
}

fn raw_quote_oracle(c: &RawQuote, obs: &mut Obs) -> Check {
    obs.nt(&c.src);
    let got = lq::with_parser(Conf::Stdlib, |p| lq::run(p, &c.src, &liquid::Object::new()));
    match got {
        Err(p) => Err(Failure::new(format!("raw: panics: {}", p.site()), format!("src={:?} {}", c.src, p.what))),
        Ok(Ok(s)) if s == c.expected => Ok(()),
        Ok(Ok(s)) => Err(Failure::new("raw: body with a quoted look-alike is not emitted verbatim", format!("src={:?} expected={:?} got={s:?}", c.src, c.expected))),
        Ok(Err(e)) if e.starts_with("parse:") => Err(Failure::new("raw: a quote inside tag-like text of a raw body is lexed as a string literal running past endraw", format!("src={:?} expected=Ok({:?}) got=Err({})", c.src, c.expected, e.lines().filter(|l| l.contains('=')).collect::<Vec<_>>().join(" ")))),
        Ok(Err(e)) => Err(Failure::new("raw: render fails for a raw body with a quoted look-alike", format!("src={:?} {e}", c.src))),
    }
}

pub fn run(ctx: &Ctx) {
    ctx.set_rule("E1: templates of 1..8 top-level nodes (text segments over full Unicode with 0..4 whitespace/other chars at their edges; outputs, assign, capture, increment, if/unless/case, for/tablerow, break/continue, raw with markup look-alikes, comment with side-effecting bodies), nested <= 3, every delimiter side independently trimmed, 0..3 inner blanks; probes of x,y,z and two counters appended. E2: single tag x 16 marker combinations x whitespace kinds on all four adjacent positions. Oracle: reference interpreter (rule T). Non-trivial = a trim marker actually removes whitespace, or a raw/comment body contains a look-alike; distinct = distinct source.");
    ctx.assume("blank characters other than space, tab, CR, LF are never generated adjacent to a trimmed side (statement lists spaces, tabs, line breaks)");
    ctx.exhaustive("single_tag", 7 * 16 * 7 * 7 * 7 * 7, single_tag, oracle);
    ctx.random("plain", ctx.pick(60_000, 300_000), || gen::plain_text(40).prop_map(|text| Plain { text }), plain_oracle);
    ctx.cases("raw_quote_across_endraw", raw_quote_cases(), raw_quote_oracle);
    ctx.random("templates", ctx.pick(250_000, 1_500_000), strategy, oracle);
}

/// Byte-driven twin of `strategy` (engine E6b, see astdec.rs).
pub fn fuzz_case(d: &mut crate::astdec::Dec) -> Case {
    Case { nodes: d.nodes(&cfg(), 8) }
}
