//! C02 — rendering is total: any template on any data yields output or an error.

use crate::ast::*;
use crate::astgen::{self, GenCfg};
use crate::engine::{decode, guard, Check, Ctx, Failure, Obs};
use crate::gen;
use crate::interp::{self, PartialDef};
use crate::lq::{self, Conf, Policy};
use crate::props::c17::{mk, Ts};
use crate::rv::{fl, obj, st, RV};
use liquid::model::Value;
use proptest::prelude::*;
use serde::{Deserialize, Serialize};

// ---- (a) filter cube

#[derive(Clone, Debug, Serialize, Deserialize)]
pub struct FilterCase {
    pub conf: Conf,
    pub filter: String,
    pub input: RV,
    pub args: Vec<RV>,
}

fn kind_key(v: &RV) -> String {
    match v {
        RV::Int(i) if i.unsigned_abs() >= 1 << 62 => "int_boundary".into(),
        RV::Str(s) if !s.is_ascii() => "str_nonascii".into(),
        RV::Str(s) if s.trim().is_empty() => "str_blank".into(),
        v => v.kind().into(),
    }
}

fn show(r: &lq::R<RV>) -> String {
    match r {
        Ok(Ok(v)) => format!("Ok({})", v.dump().chars().take(120).collect::<String>()),
        Ok(Err(e)) => format!("Err({:?})", e.lines().next().unwrap_or("")),
        Err(p) => format!("PANIC({})", p.what),
    }
}

fn filter_oracle(c: &FilterCase, obs: &mut Obs) -> Check {
    obs.nt(&(c.filter.as_str(), kind_key(&c.input), c.args.iter().map(kind_key).collect::<Vec<_>>()));
    let r = lq::apply(c.conf, &c.filter, &c.input, &c.args);
    obs.sample_with(|| serde_json::json!({"filter": c.filter, "input": c.input.dump(), "args": c.args.iter().map(|a| a.dump()).collect::<Vec<_>>(), "result": show(&r)}));
    match r {
        Err(p) => Err(Failure::new(format!("{}: panics: {}", c.filter, p.site()), format!("conf={:?} input={} args={:?} {}", c.conf, c.input.dump(), c.args.iter().map(|a| a.dump()).collect::<Vec<_>>(), p.what))),
        Ok(Err(e)) => {
            if e.starts_with("parse:") {
                obs.class("arity_rejected_at_parse");
            } else {
                obs.class("render_error");
            }
            Ok(())
        }
        Ok(Ok(_)) => {
            obs.class("ok");
            Ok(())
        }
    }
}

/// argument pool: the stress values minus widths that make work unbounded by design
pub fn arg_pool() -> Vec<RV> {
    let mut v = gen::stress_values();
    v.push(RV::Int(10_000));
    v.push(RV::Int(-10_000));
    v.push(st("%Y-%m-%d %H:%M"));
    v.push(st("2020-02-29 12:00:00 +0100"));
    v.push(st("1 2"));
    v.push(st("0"));
    v.push(st("0.0"));
    v.push(st("-1"));
    // longer non-ASCII strings: every byte offset from either end falls inside some character
    v.push(st("日本語テキスト"));
    v.push(st("Ünïcödé"));
    v.push(st("ab😀cd😀"));
    v.push(st("e\u{301}e\u{301}e\u{301}"));
    v.push(st("x.y[0]"));
    v.push(RV::Arr((0..40).map(|i| if i % 3 == 0 { RV::Int(i) } else if i % 3 == 1 { st("s") } else { RV::Nil }).collect()));
    v.push(RV::Arr(vec![obj(vec![("a", RV::Int(2))]), obj(vec![("a", RV::Nil)]), obj(vec![("b", RV::Int(1))])]));
    v
}

fn sub_pool() -> Vec<RV> {
    vec![RV::Nil, RV::Int(0), RV::Int(-1), RV::Int(i64::MAX), RV::Int(i64::MIN), fl(0.5), fl(f64::INFINITY), st(""), st("é"), st("10"), RV::Arr(vec![RV::Int(1), st("a"), RV::Nil]), obj(vec![("a", RV::Int(1))])]
}

// ---- (b) tag attribute cube

#[derive(Clone, Debug, Serialize, Deserialize)]
pub struct TagCase {
    pub src: String,
    pub data: RV,
}

pub fn attr_pool() -> Vec<RV> {
    vec![RV::Int(0), RV::Int(1), RV::Int(2), RV::Int(-1), RV::Int(10_000), RV::Int(i64::MAX), RV::Int(i64::MIN), st("3"), st("x"), fl(1.5), RV::Nil, RV::Bool(true), RV::Arr(vec![]), obj(vec![]), st(&format!("x{}", "é".repeat(40))), st("0")]
}

fn render_checked(src: &str, data: &RV, partials: &[(String, String)], obs: &mut Obs, what: &str) -> Check {
    let parser = match lq::parser_with_partials(Policy::Eager, partials) {
        Ok(Ok(p)) => p,
        Ok(Err(e)) => return Err(Failure::new("render: parser does not build", e)),
        Err(p) => return Err(Failure::new(format!("{what}: parser build panics: {}", p.site()), p.what)),
    };
    let tpl = match lq::parse(&parser, src) {
        Ok(Ok(t)) => t,
        Ok(Err(_)) => {
            obs.class("rejected_at_parse");
            return Ok(());
        }
        Err(p) => return Err(Failure::new(format!("{what}: parse panics: {}", p.site()), format!("src={src:?} {}", p.what))),
    };
    let globals = data.to_object();
    let a = lq::render(&tpl, &globals);
    let mut buf: Vec<u8> = Vec::new();
    let b = guard(|| tpl.render_to(&mut buf, &globals).map_err(|e| e.to_string()));
    obs.extra_evals += 1;
    let describe = |x: &str| format!("src={src:?}\n data={}\n {x}", data.dump());
    match (&a, &b) {
        (Err(p), _) | (_, Err(p)) => Err(Failure::new(format!("{what}: render panics: {}", p.site()), describe(&p.what))),
        (Ok(Ok(s)), Ok(Ok(()))) => {
            obs.class("ok");
            if std::str::from_utf8(&buf).is_err() {
                return Err(Failure::new(format!("{what}: emitted bytes are not valid UTF-8"), describe("")));
            }
            if s.as_bytes() != buf.as_slice() {
                return Err(Failure::new(format!("{what}: render() and render_to() emit different bytes"), describe(&format!("render={s:?} render_to={:?}", String::from_utf8_lossy(&buf)))));
            }
            Ok(())
        }
        (Ok(Err(_)), Ok(Err(_))) => {
            obs.class("render_error");
            if std::str::from_utf8(&buf).is_err() {
                return Err(Failure::new(format!("{what}: bytes emitted before the error are not valid UTF-8"), describe("")));
            }
            Ok(())
        }
        _ => Err(Failure::new(format!("{what}: render() and render_to() disagree on success"), describe(&format!("render={} render_to={:?}", lq::show(&a), b.as_ref().map(|r| r.is_ok()))))),
    }
}

fn tag_oracle(c: &TagCase, obs: &mut Obs) -> Check {
    obs.nt(&(c.src.as_str(), c.data.dump()));
    let partials = vec![("p".to_string(), "[{{ k }}{{ x }}]".to_string()), ("3".to_string(), "three".to_string()), ("x".to_string(), "{% break %}".to_string())];
    render_checked(&c.src, &c.data, &partials, obs, "tag")
}

fn tag_cases() -> Vec<TagCase> {
    let pool = attr_pool();
    let mut v = Vec::new();
    let colls = ["arr", "(1..5)", "(lo..hi)", "nilv", "objv", "strv", "(a1..3)", "(1..a1)"];
    for coll in colls {
        for a1 in &pool {
            for a2 in pool.iter().take(8) {
                let data = obj(vec![("arr", RV::Arr((1..=5).map(RV::Int).collect())), ("lo", RV::Int(2)), ("hi", RV::Int(4)), ("nilv", RV::Nil), ("objv", obj(vec![("k", st("v")), ("j", RV::Int(1))])), ("strv", st("str")), ("a1", a1.clone()), ("a2", a2.clone())]);
                // (a1..3) must not span more than 10^4 elements: skip the two huge integers there
                let huge = matches!(a1, RV::Int(i) if i.unsigned_abs() > 10_000);
                if coll.contains("a1") && huge {
                    continue;
                }
                for hdr in [
                    format!("{{% for i in {coll} limit:a1 offset:a2 %}}{{{{ i }}}}{{{{ forloop.index }}}}{{% else %}}E{{% endfor %}}"),
                    format!("{{% for i in {coll} reversed offset:a1 limit:a2 %}}{{{{ i }}}}{{% endfor %}}"),
                    format!("{{% tablerow i in {coll} cols:a1 limit:a2 %}}{{{{ i }}}}{{{{ tablerow.col }}}}{{% endtablerow %}}"),
                    format!("{{% tablerow i in {coll} cols:a2 offset:a1 %}}{{{{ tablerow.col_last }}}}{{% endtablerow %}}"),
                ] {
                    v.push(TagCase { src: hdr, data: data.clone() });
                }
            }
        }
    }
    for a1 in &pool {
        let data = obj(vec![("a1", a1.clone()), ("arr", RV::Arr(vec![RV::Int(1), RV::Int(2)]))]);
        for src in [
            "{% cycle a1 %}{% cycle a1, 1 %}{% cycle a1, a1, a1 %}",
            "{% cycle a1: 1, 2 %}{% cycle a1: 1, 2 %}{% cycle a1: 1, 2 %}",
            "{% for i in arr %}{% cycle 'g': a1, 2 %}{% cycle 'g': 1 %}{% endfor %}",
            "{% include a1 %}",
            "{% render a1 %}",
            "{% include 'p' k: a1 %}{% render 'p', k: a1 %}{% render 'p' with a1 as k %}",
            "{% render 'p' for a1 as k %}",
            "{% for i in arr %}{% include a1 %}{% endfor %}",
            "{% case a1 %}{% when 1 %}one{% when 'x', nil %}x{% else %}other{% endcase %}",
            "{% case 1 %}{% when a1 %}hit{% when a1, a1 %}hit2{% endcase %}",
            "{% increment a1 %}{% decrement a1 %}{{ a1 }}",
            "{% assign a1 = a1 %}{% increment a1 %}{{ a1 }}",
            "{% if a1 %}t{% endif %}{% if a1 == a1 %}e{% endif %}{% if a1 < 1 %}l{% endif %}{% if a1 contains a1 %}c{% endif %}{% unless a1 %}u{% endunless %}",
            "{% if a1 contains 'x' %}1{% endif %}{% if 'x' contains a1 %}2{% endif %}{% if arr contains a1 %}3{% endif %}",
            "{{ a1 }}{{ a1.size }}{{ a1.first }}{{ a1[0] }}{{ a1[a1] }}{{ arr[a1] }}",
            "{% capture a1 %}{{ a1 }}{% endcapture %}{{ a1 }}",
            "{% ifchanged %}{{ a1 }}{% endifchanged %}{% ifchanged %}{{ a1 }}{% endifchanged %}",
            "{% for i in a1 %}{{ i }}{% break %}{% endfor %}{% tablerow i in a1 %}{{ i }}{% endtablerow %}",
            "{% break %}after",
            "{% continue %}after",
            "{% tablerow i in arr %}{% break %}{{ i }}{% endtablerow %}",
            "{% for i in arr %}{% else %}{% break %}{% endfor %}x",
        ] {
            v.push(TagCase { src: src.to_string(), data: data.clone() });
        }
    }
    v
}

// ---- (c) random templates

#[derive(Clone, Debug, Serialize, Deserialize)]
pub struct Prog {
    pub src: String,
    pub partials: Vec<(String, String)>,
    pub data: RV,
}

fn prog_oracle(c: &Prog, obs: &mut Obs) -> Check {
    obs.nt(&(c.src.as_str(), c.data.dump()));
    render_checked(&c.src, &c.data, &c.partials, obs, "template")
}

const ALL_FILTERS: &[(&str, usize)] = &[
    ("abs", 0), ("append", 1), ("at_least", 1), ("at_most", 1), ("capitalize", 0), ("ceil", 0), ("compact", 0), ("concat", 1), ("date", 1), ("default", 1), ("divided_by", 1), ("downcase", 0), ("escape", 0), ("escape_once", 0),
    ("first", 0), ("floor", 0), ("join", 1), ("last", 0), ("lstrip", 0), ("map", 1), ("minus", 1), ("modulo", 1), ("newline_to_br", 0), ("plus", 1), ("prepend", 1), ("remove", 1), ("remove_first", 1), ("replace", 2),
    ("replace_first", 2), ("reverse", 0), ("round", 1), ("rstrip", 0), ("size", 0), ("slice", 2), ("sort", 0), ("sort_natural", 0), ("split", 1), ("strip", 0), ("strip_html", 0), ("strip_newlines", 0), ("times", 1),
    ("truncate", 2), ("truncatewords", 1), ("uniq", 0), ("upcase", 0), ("url_decode", 0), ("url_encode", 0), ("where", 2), ("sort", 1), ("compact", 1), ("round", 0), ("slice", 1), ("truncate", 1),
];

fn prog_cfg() -> GenCfg {
    GenCfg {
        names: vec!["x", "y", "z"],
        loopvars: vec!["i", "x"],
        depth: 3,
        unicode_text: true,
        filters: ALL_FILTERS.to_vec(),
        coll_names: vec!["x", "y", "arr"],
        // variable range bounds meet extreme integers in the tag cube (b), where the span is
        // controlled; here they would make the work unbounded by design
        wild_ranges: false,
        include: true,
        render: true,
        partials: vec!["p".into(), "missing".into()],
        ..GenCfg::all()
    }
}

fn prog_strategy() -> BoxedStrategy<Prog> {
    let pcfg = GenCfg { include: false, render: false, partials: vec![], depth: 2, top_level_interrupts: true, ..prog_cfg() };
    (astgen::nodes(&prog_cfg(), 6), astgen::nodes(&pcfg, 3), gen::globals_rv(&["x", "y", "z", "arr", "i"], 3, 6))
        .prop_filter_map("explosive or unbounded by design", |(main, p, data)| {
            // ranges / widths beyond 10^4 are excluded by the property; the cost estimate also
            // rejects programs whose output grows explosively
            let defs = vec![("p".to_string(), PartialDef::Ok(p.clone()))];
            if !interp::cost_ok(&main, &data, &defs) {
                return None;
            }
            let src = print(&main);
            Some(Prog { src, partials: vec![("p".into(), print(&p))], data })
        })
        .boxed()
}

// ---- (d) strftime formats

#[derive(Clone, Debug, Serialize, Deserialize)]
pub struct FmtCase {
    pub fmt: String,
    pub ts: Ts,
    pub filter: String,
}

const FMT_ALPHA: [&str; 16] = ["%", "-", "_", "0", "^", "#", ":", "3", "12", "E", "O", "Y", "z", "L", "é", "😀"];

fn fmt_oracle(c: &FmtCase, obs: &mut Obs) -> Check {
    obs.nt(&(c.fmt.as_str(), c.filter.as_str()));
    let args = if c.filter == "date" { vec![Value::scalar(c.fmt.clone())] } else { vec![Value::scalar(c.fmt.clone()), Value::scalar(3i64)] };
    let r = lq::apply_values(Conf::Full, &c.filter, Value::scalar(mk(&c.ts)), args);
    match r {
        Err(p) => Err(Failure::new(format!("{}: panics: {}", c.filter, p.site()), format!("fmt={:?} {}", c.fmt, p.what))),
        _ => Ok(()),
    }
}

pub fn run(ctx: &Ctx) {
    ctx.set_rule("E2: (a) every filter of stdlib / stdlib+jekyll+shopify+extra (names taken from the parser's reflection) x every input of a 51-value pool (nil, booleans, integers to the i64 limits, floats incl. ties and infinities, empty / blank / non-ASCII / combining strings, date-like and path-like strings, arrays of mixed types up to 40 elements, arrays of objects, objects, empty/blank markers) x every argument tuple of arity <= 1 over the same pool and arity 2 over a 12-value sub-pool (thorough, and always for the filters only the extended configuration adds: the full pool), deliberately type-confused; every filter x 72 strings built from characters whose case mappings change length, 4-byte characters, combining marks and Unicode blanks x 11 small argument tuples; (b) for / tablerow / cycle / include / render / case / increment / capture / ifchanged / interrupts with every attribute position filled from {0, 1, 2, -1, 10^4, i64::MAX, i64::MIN, '3', 'x', 1.5, nil, true, [], {}} over 8 collection forms; (d) every format string of <= 3 (thorough 4) symbols over {% - _ 0 ^ # : 3 12 E O Y z L e-acute emoji} for date and date_in_tz, and every printable ASCII character as a directive behind 13 flag / width / colon prefixes on 10 timestamps at field edges (midnight, noon, last second, years 1 and 9999, leap day, extreme offsets); E1: (c) random well-formed templates using every tag, block and filter on random nested data, rendered with render and render_to. Oracle: no panic; Ok or Err; emitted bytes valid UTF-8; render == render_to. Non-trivial = every case (each exercises a filter or tag on a non-default argument); distinct by (construct, input kind, argument kinds) for the cubes and by source+data for random templates.");
    ctx.assume("ranges and widths above 10^4 are excluded (unbounded work by design, as in the statement); explosive generated programs are discarded by a cost estimate");
    for conf in [Conf::Stdlib, Conf::Full] {
        let names = lq::filter_names(conf);
        let names: Vec<String> = if conf == Conf::Full {
            // only what the extended configuration adds or overrides
            let base = lq::filter_names(Conf::Stdlib);
            names.into_iter().filter(|n| !base.contains(n) || n == "sort").collect()
        } else {
            names
        };
        ctx.note(&format!("filters_{conf:?}"), serde_json::json!(names));
        let pool = arg_pool();
        // the extended configuration adds only ~10 filters: its arity-2 cube always uses the full pool
        let sub = if ctx.quick() && conf == Conf::Stdlib { sub_pool() } else { arg_pool() };
        let (nf, np, ns) = (names.len() as u64, pool.len() as u64, sub.len() as u64);
        let tag = format!("{conf:?}").to_lowercase();
        {
            let (names, pool) = (&names, &pool);
            ctx.exhaustive(&format!("cube_arity0_{tag}"), nf * np, move |i| {
                let d = decode(i, &[nf, np])?;
                Some(FilterCase { conf, filter: names[d[0] as usize].clone(), input: pool[d[1] as usize].clone(), args: vec![] })
            }, filter_oracle);
            ctx.exhaustive(&format!("cube_arity1_{tag}"), nf * np * np, move |i| {
                let d = decode(i, &[nf, np, np])?;
                Some(FilterCase { conf, filter: names[d[0] as usize].clone(), input: pool[d[1] as usize].clone(), args: vec![pool[d[2] as usize].clone()] })
            }, filter_oracle);
            let sub = &sub;
            ctx.exhaustive(&format!("cube_arity2_{tag}"), nf * np * ns * ns, move |i| {
                let d = decode(i, &[nf, np, ns, ns])?;
                Some(FilterCase { conf, filter: names[d[0] as usize].clone(), input: pool[d[1] as usize].clone(), args: vec![sub[d[2] as usize].clone(), sub[d[3] as usize].clone()] })
            }, filter_oracle);
        }
    }
    // characters whose case mappings change their length (ı→I, ﬁ→FI, ŉ→ʼN, ß→SS, İ→i̇, ...), 4-byte
    // characters, combining marks and Unicode blanks at the first / last / only position: every
    // filter, arity 0 and arity 1 / 2 over small integers and short strings
    {
        let specials = ['ı', 'ﬁ', 'ŉ', 'ΐ', 'ǰ', 'ſ', 'ⱥ', 'ß', 'ǆ', 'İ', 'ᾳ', 'ﬃ', 'Ⱥ', '😀', '\u{301}', '\u{a0}', '\u{2028}', '\u{85}'];
        let mut inputs: Vec<RV> = Vec::new();
        for ch in specials {
            inputs.push(st(&ch.to_string()));
            inputs.push(st(&format!("{ch}stanbul")));
            inputs.push(st(&format!("ab{ch}")));
            inputs.push(st(&format!("{ch}{ch} {ch}x{ch}")));
        }
        let args: Vec<Vec<RV>> = vec![vec![], vec![RV::Int(1)], vec![RV::Int(-1)], vec![RV::Int(2)], vec![st("ı")], vec![st("")], vec![RV::Int(0), RV::Int(1)], vec![RV::Int(1), RV::Int(2)], vec![RV::Int(-2), RV::Int(3)], vec![st("ß"), st("ﬁ")], vec![RV::Int(2), st("İ")]];
        let names = lq::filter_names(Conf::Full);
        let (nf, ni, na) = (names.len() as u64, inputs.len() as u64, args.len() as u64);
        let (names, inputs, args) = (&names, &inputs, &args);
        ctx.exhaustive("special_casing_strings", nf * ni * na, move |i| {
            let d = decode(i, &[nf, ni, na])?;
            Some(FilterCase { conf: Conf::Full, filter: names[d[0] as usize].clone(), input: inputs[d[1] as usize].clone(), args: args[d[2] as usize].clone() })
        }, filter_oracle);
    }
    ctx.cases("tag_attributes", tag_cases(), tag_oracle);
    let flen = ctx.pick(3, 4);
    let ts = Ts { unix: 1_583_020_799, nanos: 5_000_000, offset: -(3 * 3600 + 1800) };
    for len in 1..=flen {
        let n = 16u64.pow(len as u32) * 2;
        ctx.exhaustive(&format!("strftime_len{len}"), n, move |i| {
            let which = i % 2;
            let d = decode(i / 2, &vec![16u64; len])?;
            Some(FmtCase { fmt: d.iter().map(|x| FMT_ALPHA[*x as usize]).collect(), ts, filter: if which == 0 { "date".into() } else { "date_in_tz".into() } })
        }, fmt_oracle);
    }
    // every printable ASCII character as a directive, plain and behind each flag / width / colon,
    // on timestamps at the edges of each field (midnight, noon, last second, first and last year,
    // leap day, negative and extreme offsets, sub-second fractions)
    let stamps: Vec<Ts> = vec![
        Ts { unix: 0, nanos: 0, offset: 0 },
        Ts { unix: 1_582_934_400, nanos: 0, offset: 0 },            // 2020-02-29 00:00:00
        Ts { unix: 1_582_977_600, nanos: 1, offset: 0 },            // 12:00:00
        Ts { unix: 1_583_020_799, nanos: 999_999_999, offset: 0 },  // 23:59:59
        Ts { unix: 1_582_934_400 + 3600, nanos: 0, offset: -3600 }, // local midnight west of UTC
        Ts { unix: -62_135_596_800, nanos: 0, offset: 0 },          // 0001-01-01
        Ts { unix: 253_402_300_799, nanos: 0, offset: 0 },          // 9999-12-31 23:59:59
        Ts { unix: 1_583_020_799, nanos: 5_000_000, offset: 50_400 },
        Ts { unix: 1_583_020_799, nanos: 0, offset: -43_200 },
        Ts { unix: -1, nanos: 0, offset: 1800 },
    ];
    let prefixes = ["", "-", "_", "0", "^", "#", ":", "::", "10", "-3", "010", "E", "O"];
    let (ns, npre) = (stamps.len() as u64, prefixes.len() as u64);
    ctx.exhaustive("strftime_every_directive", 2 * 95 * npre * ns, move |i| {
        let d = decode(i, &[2, 95, npre, ns])?;
        let ch = (0x20u8 + d[1] as u8) as char;
        Some(FmtCase { fmt: format!("a%{}{ch}b", prefixes[d[2] as usize]), ts: stamps[d[3] as usize], filter: if d[0] == 0 { "date".into() } else { "date_in_tz".into() } })
    }, fmt_oracle);
    ctx.random("templates", ctx.pick(200_000, 1_500_000), prog_strategy, prog_oracle);
}


// ---- libFuzzer artifacts (thorough tier supplement): same decoder as the fuzz target

mod fuzz_decode {
    include!("/verif/fuzzhost/fuzz/fuzz_targets/decode.rs");
}

fn fv_to_rv(v: &fuzz_decode::FV) -> RV {
    use fuzz_decode::FV;
    match v {
        FV::Nil => RV::Nil,
        FV::Bool(b) => RV::Bool(*b),
        FV::Int(i) => RV::Int(*i),
        FV::Float(f) => fl(*f),
        FV::Str(s) => st(s),
        FV::Arr(a) => RV::Arr(a.iter().map(fv_to_rv).collect()),
        FV::Obj(o) => RV::Obj(o.iter().map(|(k, v)| (k.clone(), fv_to_rv(v))).collect()),
    }
}

pub fn decode_fuzz_input(bytes: &[u8]) -> Option<Prog> {
    let (text, globals) = fuzz_decode::decode_input(bytes)?;
    Some(Prog { src: text.to_string(), partials: vec![], data: RV::Obj(globals.iter().map(|(k, v)| (k.clone(), fv_to_rv(v))).collect()) })
}
