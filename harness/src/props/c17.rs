//! C17 — dates: parse/print round-trips and strftime directives mean what they say.

use crate::cal::{self, Fields, MONTHS, WEEKDAYS};
use crate::engine::{Check, Ctx, Failure, Obs};
use crate::lq::{self, Conf};
use crate::rv::RV;
use liquid::model::{DateTime, Value};
use proptest::prelude::*;
use serde::{Deserialize, Serialize};
use serde_json::json;

#[derive(Clone, Copy, Debug, Hash, PartialEq, Eq, Serialize, Deserialize)]
pub struct Ts {
    pub unix: i64,
    pub nanos: u32,
    /// seconds east of UTC (whole minutes only)
    pub offset: i32,
}

pub fn mk(ts: &Ts) -> DateTime {
    let odt = time::OffsetDateTime::from_unix_timestamp_nanos(ts.unix as i128 * 1_000_000_000 + ts.nanos as i128)
        .expect("in range")
        .to_offset(time::UtcOffset::from_whole_seconds(ts.offset).expect("offset in range"));
    let mut d = DateTime::default();
    *d = odt;
    d
}

fn fields(ts: &Ts) -> Fields {
    cal::fields(ts.unix, ts.nanos, ts.offset)
}

// ------------------------------------------------------------------------------------------
// reference formatter

#[derive(Debug, PartialEq)]
pub enum Exp {
    Ok(String),
    Err,
    Unasserted,
}

fn pad_left(s: &str, width: usize, c: char) -> String {
    let n = s.chars().count();
    let mut out = String::new();
    for _ in n..width {
        out.push(c);
    }
    out.push_str(s);
    out
}

struct Spec {
    flags: Vec<char>,
    width: Option<usize>,
}

impl Spec {
    fn has(&self, c: char) -> bool {
        self.flags.contains(&c)
    }
    fn pad_style(&self) -> Option<char> {
        self.flags.iter().rev().find(|c| **c == '_' || **c == '0').copied()
    }
    fn plain(&self) -> bool {
        self.flags.is_empty()
    }
}

fn numeric(sp: &Spec, value: i64, defw: usize, default_space: bool) -> Option<String> {
    if value < 0 {
        return if sp.plain() && sp.width.is_none() { Some(value.to_string()) } else { None };
    }
    let digits = value.to_string();
    if sp.has('-') {
        return Some(digits);
    }
    let width = sp.width.unwrap_or(defw);
    let c = match sp.pad_style() {
        Some('_') => ' ',
        Some('0') => '0',
        _ => {
            if default_space {
                ' '
            } else {
                '0'
            }
        }
    };
    Some(pad_left(&digits, width, c))
}

fn alpha(sp: &Spec, s: &str) -> Option<String> {
    let text = if sp.has('^') || sp.has('#') { s.to_ascii_uppercase() } else { s.to_string() };
    if sp.has('-') {
        return Some(text);
    }
    match sp.width {
        None => Some(text),
        Some(w) => Some(pad_left(&text, w, if sp.pad_style() == Some('0') { '0' } else { ' ' })),
    }
}

fn composite(sp: &Spec, s: String) -> Option<String> {
    let only_upper = sp.flags.iter().all(|c| *c == '^');
    if !only_upper {
        return None;
    }
    let text = if sp.has('^') { s.to_ascii_uppercase() } else { s };
    Some(match sp.width {
        None => text,
        Some(w) => pad_left(&text, w, ' '),
    })
}

fn hour12(h: u32) -> u32 {
    match h % 12 {
        0 => 12,
        x => x,
    }
}

fn offset_text(off: i32, colon: bool, seconds: bool) -> String {
    let sign = if off < 0 { '-' } else { '+' };
    let a = off.unsigned_abs();
    let mut s = format!("{sign}{:02}{}{:02}", a / 3600, if colon { ":" } else { "" }, a % 3600 / 60);
    if seconds {
        s.push_str(&format!(":{:02}", a % 60));
    }
    s
}

/// Reference rendering of `fmt` for the given fields, per the directive documentation.
pub fn reference(f: &Fields, fmt: &str) -> Exp {
    let cs: Vec<char> = fmt.chars().collect();
    let mut out = String::new();
    let mut i = 0;
    let mut unasserted = false;
    while i < cs.len() {
        if cs[i] != '%' {
            out.push(cs[i]);
            i += 1;
            continue;
        }
        let start = i;
        i += 1;
        let mut flags = Vec::new();
        while i < cs.len() && matches!(cs[i], '-' | '_' | '0' | '^' | '#') {
            flags.push(cs[i]);
            i += 1;
        }
        let wstart = i;
        while i < cs.len() && cs[i].is_ascii_digit() {
            i += 1;
        }
        let width: Option<usize> = if i > wstart {
            match cs[wstart..i].iter().collect::<String>().parse() {
                Ok(w) => Some(w),
                Err(_) => return Exp::Err,
            }
        } else {
            None
        };
        if i >= cs.len() {
            return Exp::Err;
        }
        let mut modifier = false;
        if cs[i] == 'E' || cs[i] == 'O' {
            modifier = true;
            i += 1;
            if i >= cs.len() {
                return Exp::Err;
            }
        }
        let d = cs[i];
        i += 1;
        let sp = Spec { flags, width };
        let piece: Option<String> = match d {
            'Y' => numeric(&sp, f.year, 4, false),
            'C' => numeric(&sp, f.year.div_euclid(100), 2, false),
            'y' => numeric(&sp, f.year.rem_euclid(100), 2, false),
            'm' => numeric(&sp, f.month as i64, 2, false),
            'd' => numeric(&sp, f.day as i64, 2, false),
            'e' => numeric(&sp, f.day as i64, 2, true),
            'w' => numeric(&sp, f.wday as i64, 0, false),
            'u' => numeric(&sp, if f.wday == 0 { 7 } else { f.wday as i64 }, 0, false),
            'U' => numeric(&sp, f.week_sun as i64, 2, false),
            'W' => numeric(&sp, f.week_mon as i64, 2, false),
            'G' => numeric(&sp, f.iso_year, 4, false),
            'g' => numeric(&sp, f.iso_year.rem_euclid(100), 2, false),
            'V' => numeric(&sp, f.iso_week as i64, 2, false),
            'j' => numeric(&sp, f.ordinal as i64, 3, false),
            'H' => numeric(&sp, f.hour as i64, 2, false),
            'k' => numeric(&sp, f.hour as i64, 2, true),
            'I' => numeric(&sp, hour12(f.hour) as i64, 2, false),
            'l' => numeric(&sp, hour12(f.hour) as i64, 2, true),
            'M' => numeric(&sp, f.minute as i64, 2, false),
            'S' => numeric(&sp, f.second as i64, 2, false),
            's' => numeric(&sp, f.unix, 0, false),
            'b' | 'h' => alpha(&sp, &MONTHS[f.month as usize - 1][..3]),
            'B' => alpha(&sp, MONTHS[f.month as usize - 1]),
            'a' => alpha(&sp, &WEEKDAYS[f.wday as usize][..3]),
            'A' => alpha(&sp, WEEKDAYS[f.wday as usize]),
            'p' => {
                if sp.flags.iter().all(|c| *c == '^') {
                    let s = if f.hour < 12 { "AM" } else { "PM" };
                    Some(match sp.width {
                        Some(w) => pad_left(s, w, ' '),
                        None => s.to_string(),
                    })
                } else {
                    None
                }
            }
            'P' => {
                if sp.plain() {
                    let s = if f.hour < 12 { "am" } else { "pm" };
                    Some(match sp.width {
                        Some(w) => pad_left(s, w, ' '),
                        None => s.to_string(),
                    })
                } else {
                    None
                }
            }
            'F' => composite(&sp, format!("{:04}-{:02}-{:02}", f.year, f.month, f.day)),
            'v' => composite(&sp, format!("{:>2}-{}-{:04}", f.day, MONTHS[f.month as usize - 1][..3].to_ascii_uppercase(), f.year)),
            'R' => composite(&sp, format!("{:02}:{:02}", f.hour, f.minute)),
            'D' | 'x' => composite(&sp, format!("{:02}/{:02}/{:02}", f.month, f.day, f.year.rem_euclid(100))),
            'T' | 'X' => composite(&sp, format!("{:02}:{:02}:{:02}", f.hour, f.minute, f.second)),
            'r' => composite(&sp, format!("{:02}:{:02}:{:02} {}", hour12(f.hour), f.minute, f.second, if f.hour < 12 { "AM" } else { "PM" })),
            'c' => composite(
                &sp,
                format!("{} {} {:>2} {:02}:{:02}:{:02} {:04}", &WEEKDAYS[f.wday as usize][..3], &MONTHS[f.month as usize - 1][..3], f.day, f.hour, f.minute, f.second, f.year),
            ),
            '%' | 'n' | 't' => {
                if sp.plain() {
                    let lit = match d {
                        '%' => "%",
                        'n' => "\n",
                        _ => "\t",
                    };
                    Some(match sp.width {
                        Some(w) => pad_left(lit, w, ' '),
                        None => lit.to_string(),
                    })
                } else {
                    None
                }
            }
            'L' | 'N' => {
                if sp.plain() {
                    let digits = sp.width.unwrap_or(if d == 'L' { 3 } else { 9 });
                    if digits > 10_000 {
                        None
                    } else {
                        let nine = format!("{:09}", f.nanos);
                        Some(if digits <= 9 { nine[..digits].to_string() } else { format!("{nine}{}", "0".repeat(digits - 9)) })
                    }
                } else {
                    None
                }
            }
            'z' => {
                if sp.plain() && sp.width.is_none() {
                    Some(offset_text(f.offset, false, false))
                } else {
                    None
                }
            }
            'Z' => {
                if sp.plain() && sp.width.is_none() {
                    Some(offset_text(f.offset, true, false))
                } else {
                    None
                }
            }
            ':' => {
                // %:z  %::z ; anything else after the colon is not pinned
                if i < cs.len() && cs[i] == 'z' {
                    i += 1;
                    if sp.plain() && sp.width.is_none() && !modifier { Some(offset_text(f.offset, true, false)) } else { None }
                } else if i + 1 < cs.len() && cs[i] == ':' && cs[i + 1] == 'z' {
                    i += 2;
                    if sp.plain() && sp.width.is_none() && !modifier { Some(offset_text(f.offset, true, true)) } else { None }
                } else {
                    return Exp::Unasserted;
                }
            }
            _ => {
                // unknown directive: echoed byte for byte
                Some(cs[start..i].iter().collect())
            }
        };
        match piece {
            Some(p) => out.push_str(&p),
            None => unasserted = true,
        }
    }
    if unasserted { Exp::Unasserted } else { Exp::Ok(out) }
}

// ------------------------------------------------------------------------------------------
// cases

#[derive(Clone, Debug, Serialize, Deserialize)]
pub struct FmtCase {
    pub ts: Ts,
    pub fmt: String,
}

fn show(r: &lq::R<RV>) -> String {
    match r {
        Ok(Ok(v)) => format!("Ok({})", v.dump()),
        Ok(Err(e)) => format!("Err({:?})", e.lines().next().unwrap_or("")),
        Err(p) => format!("PANIC({})", p.what),
    }
}

fn fmt_oracle(c: &FmtCase, obs: &mut Obs) -> Check {
    let f = fields(&c.ts);
    let boundary = (f.month == 1 && f.day <= 7) || (f.month == 12 && f.day >= 25) || (f.month == 2 && f.day >= 28) || (c.ts.nanos > 0 && c.ts.nanos < 100_000_000);
    let flagged = c.fmt.chars().zip(c.fmt.chars().skip(1)).any(|(a, b)| a == '%' && (matches!(b, '-' | '_' | '0' | '^' | '#') || b.is_ascii_digit()));
    if boundary || flagged {
        obs.nt(&(c.ts, c.fmt.as_str()));
    }
    let exp = reference(&f, &c.fmt);
    let got = lq::apply_values(Conf::Stdlib, "date", Value::scalar(mk(&c.ts)), vec![Value::scalar(c.fmt.clone())]);
    obs.sample_with(|| json!({"ts": c.ts, "fmt": c.fmt, "expected": format!("{exp:?}"), "got": show(&got)}));
    if let Err(p) = &got {
        return Err(Failure::new(format!("date: panics: {}", p.site()), format!("ts={:?} fmt={:?} {}", c.ts, c.fmt, p.what)));
    }
    if c.fmt.is_empty() {
        return Ok(()); // empty format returns the input unchanged
    }
    match (&exp, &got) {
        (Exp::Unasserted, _) => {
            obs.class("unasserted_flag_combination");
            Ok(())
        }
        (Exp::Ok(e), Ok(Ok(RV::Str(g)))) if e == g => Ok(()),
        (Exp::Err, Ok(Err(_))) => {
            obs.class("malformed_rejected");
            Ok(())
        }
        _ => {
            let first = c.fmt.chars().filter(|ch| ch.is_ascii_alphabetic()).last().unwrap_or('?');
            Err(Failure::new(format!("date: %{first} output differs from the documented meaning"), format!("ts={:?} fields={f:?} fmt={:?} expected={exp:?} got={}", c.ts, c.fmt, show(&got))))
        }
    }
}

pub fn timestamps(slice_years: bool) -> Vec<Ts> {
    let mut days: Vec<i64> = Vec::new();
    let mut years: Vec<i64> = (1970..=2040).collect();
    years.extend([1, 1000, 9999]);
    for y in years {
        for d in 1..=7 {
            days.push(cal::days_from_civil(y, 1, d));
        }
        for d in 25..=31 {
            days.push(cal::days_from_civil(y, 12, d));
        }
        days.push(cal::days_from_civil(y, 2, 28));
        days.push(cal::days_from_civil(y, 3, 1) - 1);
        days.push(cal::days_from_civil(y, 3, 1));
        days.push(cal::days_from_civil(y, 6, 15));
    }
    days.sort();
    days.dedup();
    let secs: Vec<i64> = if slice_years { (0..24).map(|h| h * 3600 + 1799).collect() } else { vec![0, 11 * 3600 + 59 * 60 + 59, 12 * 3600, 23 * 3600 + 59 * 60 + 59] };
    let nanos = [0u32, 5_000_000, 50_000_000, 1_000, 1, 999_999_999];
    let mut offsets: Vec<i32> = (-12..=14).map(|h| h * 3600).collect();
    offsets.extend([5 * 3600 + 1800, 5 * 3600 + 2700, -(3 * 3600 + 1800), 9 * 3600 + 1800, -(9 * 3600 + 1800), 12 * 3600 + 2700, -1800]);
    let mut out = Vec::new();
    for (di, d) in days.iter().enumerate() {
        for (si, s) in secs.iter().enumerate() {
            for (ni, n) in nanos.iter().enumerate() {
                for (oi, o) in offsets.iter().enumerate() {
                    // local wall-clock time d+s at offset o
                    let unix = d * 86400 + s - *o as i64;
                    // keep the instant inside year 1..9999 at this offset
                    let fy = cal::fields(unix, *n, *o).year;
                    let uy = cal::fields(unix, *n, 0).year;
                    if !(1..=9999).contains(&fy) || !(1..=9999).contains(&uy) {
                        continue;
                    }
                    if slice_years && !(di % 16 == 3 && (ni + oi + si) % 3 == 0) {
                        continue;
                    }
                    out.push(Ts { unix, nanos: *n, offset: *o });
                }
            }
        }
    }
    out
}

pub const DIRECTIVES: &[&str] = &[
    "Y", "C", "y", "m", "d", "e", "w", "u", "U", "W", "G", "g", "V", "j", "H", "k", "I", "l", "M", "S", "s", "b", "h", "B", "a", "A", "P", "p", "F", "v", "R", "D", "x", "T", "X", "r", "c", "%", "n", "t", "L",
    "N", "z", "Z", ":z", "::z",
];

pub fn formats() -> Vec<String> {
    let mut v = Vec::new();
    for d in DIRECTIVES {
        for flag in ["", "-", "_", "0", "^", "#"] {
            for width in ["", "1", "3", "6", "12"] {
                v.push(format!("%{flag}{width}{d}"));
            }
        }
        v.push(format!("%E{d}"));
        v.push(format!("%O{d}"));
        v.push(format!("%_0{d}"));
        v.push(format!("%0_{d}"));
        v.push(format!("%-^{d}"));
    }
    for s in ["%Q", "%é", "%😀", "%-5Q", "%_é x", "%", "%5", "%-", "%E", "%^", "abc%", "%Y-%m-%dT%H:%M:%S%:z", "%a, %d %b %Y %T %z", "%A %B %-d, %Y at %l:%M %p", "%s.%L", "%j/%U/%W/%V/%G", "%%%Y%%", "%10N|%3N|%1L", "é%dé", "%:", "%::", "%:a", "%:é", "%::日", "%H%:ü%M", "%-:é", "%5:é", "%f", "%i", "%J", "%K", "%q", "%o", "%E5"] {
        v.push(s.to_string());
    }
    v
}

// ---- round trips, ordering, parser

#[derive(Clone, Debug, Serialize, Deserialize)]
pub struct Pair {
    pub a: Ts,
    pub b: Ts,
}

fn roundtrip_oracle(ts: &Ts, obs: &mut Obs) -> Check {
    if ts.nanos != 0 || ts.offset != 0 {
        obs.nt(ts);
    }
    let d = mk(ts);
    let text = d.to_string();
    let back = DateTime::from_str(&text);
    let ok = |x: &DateTime| *x == d && x.offset() == d.offset() && x.nanosecond() == d.nanosecond() && x.unix_timestamp() == ts.unix;
    match back {
        Some(b) if ok(&b) => {}
        other => return Err(Failure::new("datetime: printing then parsing does not give back the same instant and offset", format!("ts={ts:?} printed={text:?} parsed={other:?}"))),
    }
    // {{ d }} prints the same default form
    let mut g = liquid::Object::new();
    g.insert("d".into(), Value::scalar(d));
    let r = lq::with_parser(Conf::Stdlib, |p| lq::run(p, "{{ d }}", &g));
    match &r {
        Ok(Ok(s)) if *s == text => {}
        _ => return Err(Failure::new("datetime: {{ d }} differs from the default printed form", format!("ts={ts:?} printed={text:?} rendered={}", lq::show(&r)))),
    }
    // serde: Value -> json text -> Value
    let v = Value::scalar(d);
    let js = serde_json::to_string(&v).map_err(|e| Failure::new("datetime: serialisation fails", e.to_string()))?;
    let v2: Value = serde_json::from_str(&js).map_err(|e| Failure::new("datetime: deserialisation of its own serialisation fails", format!("{js} {e}")))?;
    let d2 = liquid_core::model::ValueView::as_scalar(&v2).and_then(|s| s.to_date_time());
    match d2 {
        Some(b) if ok(&b) => Ok(()),
        other => Err(Failure::new("datetime: serde round trip changes the instant or offset", format!("ts={ts:?} json={js} back={other:?}"))),
    }
}

fn order_oracle(p: &Pair, obs: &mut Obs) -> Check {
    if p.a.offset != p.b.offset {
        obs.nt(&(p.a, p.b));
    }
    let (a, b) = (mk(&p.a), mk(&p.b));
    let ka = (p.a.unix, p.a.nanos);
    let kb = (p.b.unix, p.b.nanos);
    let (va, vb) = (Value::scalar(a), Value::scalar(b));
    let eq_api = va == vb;
    let cmp_api = liquid_core::model::ValueViewCmp::new(&va).partial_cmp(&liquid_core::model::ValueViewCmp::new(&vb));
    if eq_api != (ka == kb) || cmp_api != Some(ka.cmp(&kb)) || (a == b) != (ka == kb) || a.partial_cmp(&b) != Some(ka.cmp(&kb)) {
        return Err(Failure::new("datetime: equality/ordering is not chronological", format!("a={:?} b={:?} eq={eq_api} cmp={cmp_api:?} expected {:?}", p.a, p.b, ka.cmp(&kb))));
    }
    // through a template
    let mut g = liquid::Object::new();
    g.insert("a".into(), va);
    g.insert("b".into(), vb);
    let r = lq::with_parser(Conf::Stdlib, |ps| lq::run(ps, "{% if a == b %}E{% endif %}{% if a < b %}L{% endif %}{% if a > b %}G{% endif %}", &g));
    let want = match ka.cmp(&kb) {
        std::cmp::Ordering::Equal => "E",
        std::cmp::Ordering::Less => "L",
        std::cmp::Ordering::Greater => "G",
    };
    match &r {
        Ok(Ok(s)) if s == want => Ok(()),
        _ => Err(Failure::new("datetime: template comparison is not chronological", format!("a={:?} b={:?} want={want} got={}", p.a, p.b, lq::show(&r)))),
    }
}

#[derive(Clone, Debug, Serialize, Deserialize)]
pub struct ParseCase {
    pub ts: Ts,
    pub syntax: u8,
}

fn parse_oracle(c: &ParseCase, obs: &mut Obs) -> Check {
    let f = fields(&c.ts);
    if f.nanos != 0 && c.syntax != 1 {
        return Ok(());
    }
    obs.nt(&(c.ts, c.syntax));
    let off = offset_text(f.offset, false, false);
    let hms = format!("{:02}:{:02}:{:02}", f.hour, f.minute, f.second);
    let text = match c.syntax {
        0 => format!("{:04}-{:02}-{:02} {hms} {off}", f.year, f.month, f.day),
        1 => format!("{:04}-{:02}-{:02} {hms}.{:09} {off}", f.year, f.month, f.day, f.nanos),
        2 => format!("{:02} {} {:04} {hms} {off}", f.day, MONTHS[f.month as usize - 1], f.year),
        3 => format!("{:02} {} {:04} {hms} {off}", f.day, &MONTHS[f.month as usize - 1][..3], f.year),
        4 => format!("{:02}/{:02}/{:04} {hms} {off}", f.month, f.day, f.year),
        5 => format!("{} {} {} {hms} {:04} {off}", &WEEKDAYS[f.wday as usize][..3], &MONTHS[f.month as usize - 1][..3], f.day, f.year),
        6 => {
            if f.nanos != 0 {
                return Ok(());
            }
            f.unix.to_string()
        }
        _ => {
            // without an explicit offset: UTC is assumed
            if f.offset != 0 {
                return Ok(());
            }
            format!("{:04}-{:02}-{:02} {hms}", f.year, f.month, f.day)
        }
    };
    let got = crate::engine::guard(|| DateTime::from_str(&text));
    match got {
        Err(p) => Err(Failure::new(format!("datetime parser panics: {}", p.site()), format!("text={text:?} {}", p.what))),
        Ok(Some(d)) if d.unix_timestamp() == f.unix && d.nanosecond() == f.nanos && (c.syntax == 6 || d.offset().whole_seconds() == f.offset) => Ok(()),
        Ok(other) => Err(Failure::new(format!("datetime parser: accepted syntax {} parsed to a different instant/offset or rejected", c.syntax), format!("text={text:?} ts={:?} got={other:?}", c.ts))),
    }
}

/// plain dates: print/parse round trip, every accepted syntax, ordering by calendar
#[derive(Clone, Debug, Serialize, Deserialize)]
pub struct DateCase {
    /// days since 1970-01-01
    pub days: i64,
    pub other_days: i64,
}

fn date_oracle(c: &DateCase, obs: &mut Obs) -> Check {
    use liquid::model::Date;
    obs.nt(&(c.days, c.other_days));
    let (y, m, d) = cal::civil_from_days(c.days);
    let date = Date::from_ymd(y as i32, m as u8, d as u8);
    let printed = date.to_string();
    let want = format!("{y:04}-{m:02}-{d:02}");
    if printed != want {
        return Err(Failure::new("date: default printed form is not YYYY-MM-DD of the calendar date", format!("days={} printed={printed:?} want={want:?}", c.days)));
    }
    for text in [printed.clone(), format!("{d:02} {} {y:04}", MONTHS[m as usize - 1]), format!("{d:02} {} {y:04}", &MONTHS[m as usize - 1][..3])] {
        match crate::engine::guard(|| Date::from_str(&text)) {
            Err(p) => return Err(Failure::new(format!("date parser panics: {}", p.site()), format!("text={text:?} {}", p.what))),
            Ok(Some(back)) if back == date && back.year() as i64 == y && back.month() as u32 == m && back.day() as u32 == d => {}
            Ok(other) => return Err(Failure::new("date: an accepted syntax parses to a different date or is rejected", format!("text={text:?} got={other:?}"))),
        }
    }
    if date.ordinal() as i64 != c.days - cal::days_from_civil(y, 1, 1) + 1 {
        return Err(Failure::new("date: ordinal differs from the calendar", format!("date={printed} ordinal={}", date.ordinal())));
    }
    let (y2, m2, d2) = cal::civil_from_days(c.other_days);
    let other = Date::from_ymd(y2 as i32, m2 as u8, d2 as u8);
    let (va, vb) = (Value::scalar(date), Value::scalar(other));
    if (va == vb) != (c.days == c.other_days) || va.partial_cmp(&vb) != Some(c.days.cmp(&c.other_days)) {
        return Err(Failure::new("date: equality/ordering is not by calendar date", format!("{printed} vs {}", other)));
    }
    // serde round trip
    let js = serde_json::to_string(&va).map_err(|e| Failure::new("date: serialisation fails", e.to_string()))?;
    let back: Value = serde_json::from_str(&js).map_err(|e| Failure::new("date: its own serialisation does not deserialise", format!("{js} {e}")))?;
    match liquid_core::model::ValueView::as_scalar(&back).and_then(|s| s.to_date()) {
        Some(b) if b == date => Ok(()),
        other => Err(Failure::new("date: serde round trip changes the date", format!("{js} -> {other:?}"))),
    }
}

fn any_ts() -> BoxedStrategy<Ts> {
    // years 1..9999
    let lo = cal::days_from_civil(1, 1, 2) * 86400;
    let hi = cal::days_from_civil(9999, 12, 30) * 86400;
    (prop_oneof![3 => 0i64..2_300_000_000, 1 => lo..hi], prop_oneof![2 => Just(0u32), 1 => proptest::sample::select(vec![5_000_000u32, 50_000_000, 1000, 1, 999_999_999]), 1 => 0u32..1_000_000_000], (-12 * 60..=14 * 60i32).prop_map(|m| m * 60))
        .prop_map(|(unix, nanos, offset)| Ts { unix, nanos, offset })
        .boxed()
}

pub fn run(ctx: &Ctx) {
    ctx.set_rule("E2 (stratified slice in quick, complete in thorough): boundary days (1..7 Jan, 25..31 Dec, 28/29 Feb, 1 Mar, 15 Jun) of every year 1970..2040 and of years 1, 1000, 9999 x {00:00:00, 11:59:59, 12:00:00, 23:59:59} (every hour for a slice) x sub-seconds {0, 5 ms, 50 ms, 1 us, 1 ns, 999999999 ns} x 34 offsets (-12:00..+14:00, :30/:45) x every directive x flag {none,-,_,0,^,#} x width {none,1,3,6,12} plus E/O modifiers, doubled flags, composites, unknown ASCII / non-ASCII directives and malformed formats; E1: random timestamps x random concatenations of <= 6 directives; print/parse/serde round trip, chronological ordering of pairs, every accepted input syntax of the date parser. Oracle: independent civil-from-days calendar + directive documentation. Non-trivial = boundary day or leading-zero fraction or a flag/width in the format; distinct by (timestamp, format).");
    ctx.assume("flag combinations whose meaning the directive documentation does not pin (flags on composites other than ^, flags/width on z, flags on p/P, `%:` not followed by z) are exercised for crashes only");
    ctx.assume("the strings now/today are never generated (they read the system clock)");
    let ts = timestamps(false);
    let ts_hours = timestamps(true);
    let fmts = formats();
    let (nt, nf) = (ts.len() as u64, fmts.len() as u64);
    ctx.note("timestamps_in_grid", json!(nt));
    ctx.note("formats_in_grid", json!(nf));
    let stride = ctx.pick(389, 7);
    ctx.strided("grid", nt * nf, stride, |i| Some(FmtCase { ts: ts[(i / nf) as usize], fmt: fmts[(i % nf) as usize].clone() }), fmt_oracle);
    let nh = ts_hours.len() as u64;
    ctx.strided("grid_hours", nh * nf, ctx.pick(41, 3), |i| Some(FmtCase { ts: ts_hours[(i / nf) as usize], fmt: fmts[(i % nf) as usize].clone() }), fmt_oracle);
    // each format at least once, on a fixed awkward timestamp
    let awkward = Ts { unix: 1_072_915_199, nanos: 5_000_000, offset: -(3 * 3600 + 1800) };
    ctx.cases("every_format_once", fmts.iter().map(|f| FmtCase { ts: awkward, fmt: f.clone() }).collect(), fmt_oracle);
    ctx.random("random_formats", ctx.pick(150_000, 2_000_000), || {
        let piece = prop_oneof![
            6 => (proptest::sample::select(vec!["", "-", "_", "0", "^", "#", "-0", "_^"]), proptest::sample::select(vec!["", "", "1", "2", "4", "10"]), proptest::sample::select(DIRECTIVES.to_vec())).prop_map(|(f, w, d)| format!("%{f}{w}{d}")),
            2 => proptest::sample::select(vec![" ", "-", ":", "T", "é", "/", "%%", "at "]).prop_map(|s| s.to_string()),
            1 => proptest::sample::select(vec!["%Q", "%é", "%5é", "%^😀"]).prop_map(|s| s.to_string()),
        ];
        (any_ts(), proptest::collection::vec(piece, 1..=6)).prop_map(|(ts, v)| FmtCase { ts, fmt: v.concat() })
    }, fmt_oracle);
    ctx.strided("roundtrip_grid", nt, ctx.pick(11, 1), |i| Some(ts[i as usize]), roundtrip_oracle);
    ctx.random("roundtrip_random", ctx.pick(40_000, 400_000), any_ts, roundtrip_oracle);
    ctx.random("order", ctx.pick(60_000, 600_000), || {
        // 0: two independent instants; 1: one instant at two offsets; 2: the same second at two
        // offsets with different fractions (1 ns, 1 us, 1 ms apart or arbitrary)
        (any_ts(), any_ts(), 0u8..3, (-12 * 60..=14 * 60i32), prop_oneof![Just(1u32), Just(1_000), Just(1_000_000), 0u32..1_000_000_000]).prop_map(|(a, b, mode, m, frac)| match mode {
            1 => Pair { a, b: Ts { offset: m * 60, ..a } },
            2 => Pair { a, b: Ts { offset: m * 60, nanos: (a.nanos + frac) % 1_000_000_000, ..a } },
            _ => Pair { a, b },
        })
    }, order_oracle);
    {
        let lo = cal::days_from_civil(1, 1, 1);
        let hi = cal::days_from_civil(9999, 12, 31);
        ctx.strided("dates_every_day", (hi - lo + 1) as u64, ctx.pick(29, 1), move |i| Some(DateCase { days: lo + i as i64, other_days: lo + ((i * 7919) % (hi - lo + 1) as u64) as i64 }), date_oracle);
    }
    ctx.strided("parser_grid", nt * 8, ctx.pick(29, 1), |i| Some(ParseCase { ts: ts[(i / 8) as usize], syntax: (i % 8) as u8 }), parse_oracle);
    ctx.random("parser_random", ctx.pick(60_000, 600_000), || (any_ts(), 0u8..8).prop_map(|(ts, syntax)| ParseCase { ts, syntax }), parse_oracle);
}
