//! C08 — include shares the caller's scope; render isolates the partial.

use crate::ast::*;
use crate::astgen::{self, GenCfg};
use crate::engine::{Check, Ctx, Obs};
use crate::progs::{self, with_probes, PDef, Scenario};
use crate::rv::{obj, st, RV};
use proptest::prelude::*;

pub const NAMES: [&str; 3] = ["x", "y", "z"];
pub const PNAMES: [&str; 3] = ["p1", "p2", "p3"];

pub fn base_cfg() -> GenCfg {
    GenCfg {
        names: NAMES.to_vec(),
        loopvars: vec!["x", "i"],
        depth: 3,
        layout: false,
        cycle: false,
        ifchanged: false,
        raw: false,
        comment: false,
        tablerow: false,
        case: false,
        interrupts: true,
        paths: false,
        filters: vec![("append", 1)],
        forloop_refs: true,
        coll_names: vec!["arr"],
        wild_ranges: false,
        ops: vec![],
        include: true,
        render: true,
        partials: vec![],
        ..GenCfg::all()
    }
}

fn level_cfg(level: usize) -> GenCfg {
    // level 0 = main template (may call p1..p3), level k = partial pk (may call deeper ones only)
    let partials: Vec<String> = PNAMES[level..].iter().map(|s| s.to_string()).collect();
    let mut c = base_cfg();
    c.include = !partials.is_empty();
    c.render = !partials.is_empty();
    c.partials = partials;
    c.top_level_interrupts = level > 0;
    if level > 0 {
        c.depth = 2;
    }
    c
}

/// status of a partial: 0..=6 ok, 7 broken, 8 missing, and whether calls to a bad one are dead
pub fn build(main: Vec<Node>, bodies: Vec<Vec<Node>>, status: Vec<(u8, bool)>, bound: u8, dynamic: Vec<bool>) -> Scenario {
    let mut partials = Vec::new();
    let mut dead: Vec<String> = Vec::new();
    for (k, body) in bodies.into_iter().enumerate() {
        let (st_, is_dead) = status[k];
        let def = match st_ {
            7 => PDef::Broken,
            8 => PDef::Missing,
            _ => PDef::Ok(with_probes(&body, &NAMES)),
        };
        if !matches!(def, PDef::Ok(_)) && is_dead {
            dead.push(PNAMES[k].to_string());
        }
        partials.push((PNAMES[k].to_string(), def));
    }
    // calls to "dead" bad partials are wrapped in `{% if false %}`, everywhere
    let wrap_dead = |nodes: Vec<Node>| -> Vec<Node> {
        astgen::map_calls(nodes, &mut |n| {
            if astgen::call_target(&n).map(|t| dead.contains(&t)).unwrap_or(false) {
                vec![Node::If { arms: vec![(Cond::lit(false), vec![n], Tr::PLAIN)], else_: None, close: Tr::PLAIN }]
            } else {
                vec![n]
            }
        })
    };
    // in the main template some literal partial names become variables
    let mut di = 0;
    let main = astgen::map_calls(main, &mut |n| {
        let dynv = dynamic.get(di).copied().unwrap_or(false);
        di += 1;
        match (dynv, astgen::call_target(&n), n) {
            (true, Some(t), Node::Include { args, t: tr, .. }) => vec![Node::Include { name: Expr::var(&format!("n_{t}")), args, t: tr }],
            (true, Some(t), Node::Render { form, args, t: tr, .. }) => vec![Node::Render { name: Expr::var(&format!("n_{t}")), form, args, t: tr }],
            (_, _, n) => vec![n],
        }
    });
    let main = with_probes(&wrap_dead(main), &NAMES);
    let partials = partials
        .into_iter()
        .map(|(n, d)| {
            (
                n,
                match d {
                    PDef::Ok(b) => PDef::Ok(wrap_dead(b)),
                    o => o,
                },
            )
        })
        .collect();
    let mut data = vec![("arr", RV::Arr(vec![st("e1"), st("e2"), st("e3")])), ("n_p1", st("p1")), ("n_p2", st("p2")), ("n_p3", st("p3"))];
    for (i, n) in NAMES.iter().enumerate() {
        match bound / 3u8.pow(i as u32) % 3 {
            0 => {}
            1 => data.push((*n, st(&format!("data-{n}")))),
            _ => data.push((*n, obj(vec![("a", st(&format!("data-{n}.a")))]))),
        }
    }
    Scenario { main, partials, data: obj(data) }
}

pub fn scenario() -> BoxedStrategy<Scenario> {
    let status = || (0u8..9, any::<bool>());
    (
        astgen::nodes(&level_cfg(0), 6),
        astgen::nodes(&level_cfg(1), 4),
        astgen::nodes(&level_cfg(2), 4),
        astgen::nodes(&level_cfg(3), 4),
        proptest::collection::vec(status(), 3),
        0u8..27,
        proptest::collection::vec(proptest::bool::weighted(0.3), 12),
    )
        .prop_map(|(main, p1, p2, p3, status, bound, dynamic)| build(main, vec![p1, p2, p3], status, bound, dynamic))
        .boxed()
}

pub fn oracle(sc: &Scenario, obs: &mut Obs) -> Check {
    let (stats, _) = progs::differential(sc, obs, "partial")?;
    if stats.partial_calls > 0 && (!stats.shadow_pairs.is_empty() || stats.interrupts > 0) {
        obs.nt(&(sc.main_src(), sc.sources(), sc.data.dump()));
    }
    if stats.partial_calls > 0 {
        obs.class("calls_partial");
    }
    if stats.interrupts > 0 {
        obs.class("interrupt_consumed");
    }
    if sc.partials.iter().any(|(_, d)| !matches!(d, PDef::Ok(_))) {
        obs.class("has_bad_partial");
    }
    Ok(())
}

// ---- a small enumerated family: every call form x interrupt / rebind behaviour of the partial

pub fn enumerated_scenarios() -> Vec<Scenario> {
    enumerated()
}

fn enumerated() -> Vec<Scenario> {
    let mut out = Vec::new();
    let pl = Tr::PLAIN;
    let bodies: Vec<(&str, Vec<Node>)> = vec![
        ("reads", vec![]),
        ("assigns", vec![Node::Assign { name: "x".into(), e: Expr::str("px"), filters: vec![], t: pl }]),
        ("captures", vec![Node::Capture { name: "y".into(), body: vec![Node::Text("cap".into())], open: pl, close: pl }]),
        ("increments", vec![Node::Incr { name: "z".into(), t: pl }]),
        ("breaks", vec![Node::Text("b".into()), Node::Break(pl), Node::Text("UNREACHED".into())]),
        ("continues", vec![Node::Text("c".into()), Node::Continue(pl), Node::Text("UNREACHED".into())]),
        ("breaks_conditionally", vec![Node::If { arms: vec![(Cond::atom(Atom::Cmp(Expr::var("k"), "==".into(), Expr::str("e2"))), vec![Node::Break(pl)], pl)], else_: None, close: pl }]),
        ("reads_forloop", vec![Node::If { arms: vec![(Cond::truthy(Expr::path("forloop", &["index"])), vec![Node::Out { e: Expr::path("forloop", &["index"]), filters: vec![], t: pl }, Node::Text("/".into()), Node::Out { e: Expr::path("forloop", &["length"]), filters: vec![], t: pl }], pl)], else_: Some((vec![Node::Text("noloop".into())], pl)), close: pl }]),
    ];
    let names = ["x", "y", "z", "k"];
    let calls: Vec<(&str, Node)> = vec![
        ("include", Node::Include { name: Expr::str("p1"), args: vec![], t: pl }),
        ("include_arg", Node::Include { name: Expr::str("p1"), args: vec![("k".into(), Expr::var("i")), ("x".into(), Expr::str("argx"))], t: pl }),
        ("include_dyn", Node::Include { name: Expr::var("n_p1"), args: vec![("k".into(), Expr::var("i"))], t: pl }),
        ("render", Node::Render { name: Expr::str("p1"), form: RenderForm::Plain, args: vec![], t: pl }),
        ("render_args", Node::Render { name: Expr::str("p1"), form: RenderForm::Plain, args: vec![("k".into(), Expr::var("i")), ("x".into(), Expr::str("argx"))], t: pl }),
        ("render_with", Node::Render { name: Expr::str("p1"), form: RenderForm::With(Expr::var("i"), "k".into()), args: vec![("y".into(), Expr::str("argy"))], t: pl }),
        ("render_for", Node::Render { name: Expr::str("p1"), form: RenderForm::For(Coll::Expr(Expr::var("arr")), "k".into()), args: vec![("x".into(), Expr::str("argx"))], t: pl }),
        ("render_for_range", Node::Render { name: Expr::var("n_p1"), form: RenderForm::For(Coll::Range(Expr::int(1), Expr::int(2)), "k".into()), args: vec![], t: pl }),
    ];
    for (_, body) in &bodies {
        for (_, call) in &calls {
            for in_loop in [false, true] {
                for bound in [0u8, 1, 2] {
                    let pbody = {
                        let mut v = vec![Node::Text("(".into())];
                        v.extend(progs::probes(&names));
                        v.extend(body.clone());
                        v.extend(progs::probes(&names));
                        v.push(Node::Text(")".into()));
                        v
                    };
                    let mut main = progs::probes(&names);
                    let call_seq = vec![Node::Text("<".into()), call.clone(), Node::Text(">".into())];
                    if in_loop {
                        let mut lb = progs::probes(&names);
                        lb.extend(call_seq);
                        lb.extend(progs::probes(&names));
                        main.push(Node::For { var: "i".into(), coll: Coll::Expr(Expr::var("arr")), limit: None, offset: None, reversed: false, body: lb, else_: None, open: pl, close: pl });
                    } else {
                        main.push(Node::Assign { name: "i".into(), e: Expr::str("e2"), filters: vec![], t: pl });
                        main.extend(call_seq);
                    }
                    main.extend(progs::probes(&names));
                    main.push(Node::Text("|end".into()));
                    let mut data = vec![("arr", RV::Arr(vec![st("e1"), st("e2"), st("e3")])), ("n_p1", st("p1"))];
                    match bound {
                        1 => data.push(("x", st("data-x"))),
                        2 => {
                            data.push(("x", obj(vec![("a", st("data-x.a"))])));
                            data.push(("y", st("data-y")));
                        }
                        _ => {}
                    }
                    out.push(Scenario { main: normalize(main), partials: vec![("p1".into(), PDef::Ok(normalize(pbody)))], data: obj(data) });
                }
            }
        }
    }
    // the partial name is computed per execution of the same tag site: every sequence of <= 3
    // names over {p1, p2, missing} drives one include / render tag inside a loop
    for len in 1..=3usize {
        for code in 0..3usize.pow(len as u32) {
            let seq: Vec<RV> = (0..len).map(|j| st(["p1", "p2", "zz"][code / 3usize.pow(j as u32) % 3])).collect();
            for is_render in [false, true] {
                let call = if is_render {
                    Node::Render { name: Expr::var("n"), form: RenderForm::Plain, args: vec![("k".into(), Expr::var("n"))], t: pl }
                } else {
                    Node::Include { name: Expr::var("n"), args: vec![("k".into(), Expr::var("n"))], t: pl }
                };
                out.push(Scenario {
                    main: vec![Node::For { var: "n".into(), coll: Coll::Expr(Expr::var("seq")), limit: None, offset: None, reversed: false, body: vec![Node::Text("<".into()), call, Node::Text(">".into())], else_: None, open: pl, close: pl }],
                    partials: vec![
                        ("p1".into(), PDef::Ok(vec![Node::Text("one:".into()), Node::Out { e: Expr::var("k"), filters: vec![], t: pl }])),
                        ("p2".into(), PDef::Ok(vec![Node::Text("two:".into()), Node::Out { e: Expr::var("k"), filters: vec![], t: pl }])),
                    ],
                    data: obj(vec![("seq", RV::Arr(seq.clone()))]),
                });
            }
        }
    }
    // missing / broken partials on executed and dead paths
    for def in [PDef::Missing, PDef::Broken] {
        for (_, call) in &calls {
            for dead in [false, true] {
                let c = if dead { Node::If { arms: vec![(Cond::lit(false), vec![call.clone()], pl)], else_: None, close: pl } } else { call.clone() };
                out.push(Scenario {
                    main: vec![Node::Text("a".into()), Node::Assign { name: "i".into(), e: Expr::str("e1"), filters: vec![], t: pl }, c, Node::Text("z".into())],
                    partials: vec![("p1".into(), def.clone())],
                    data: obj(vec![("arr", RV::Arr(vec![st("e1")])), ("n_p1", st("p1"))]),
                });
            }
        }
    }
    out
}

pub fn run(ctx: &Ctx) {
    ctx.set_rule("E2: every call form (include plain / with arguments / dynamic name; render plain / key: value / with-as / for-as over an array and a range) x 8 partial behaviours (read, assign, capture, increment, break, continue, conditional break, forloop reads) x inside / outside a caller loop x 3 caller bindings, with probes of every name before/after the call and at entry/exit of the partial; missing and broken partials on executed and dead paths for every call form. E1: a caller and three partials (call graph p1 -> p2 -> p3, no recursion) generated from assign, capture, counters, if, for, break/continue, include and every render form over names {x, y, z}, probes everywhere, 2/9 of partials broken or missing (half of those on dead paths), partial names literal or through variables. Oracle: reference interpreter (Ok(output) / Err). Non-trivial = a partial is executed and a name is bound in >= 2 layers at some probe, or an interrupt fires; distinct by scenario.");
    ctx.assume("cycle/ifchanged inside partials, interrupts at the top level of a render-for partial and object printing are not compared");
    ctx.cases("call_forms", enumerated(), oracle);
    ctx.random("scenarios", ctx.pick(60_000, 1_000_000), scenario, oracle);
}

/// Byte-driven twin of `scenario` (engine E6b, see astdec.rs).
pub fn fuzz_case(d: &mut crate::astdec::Dec) -> Scenario {
    let status: Vec<(u8, bool)> = (0..3).map(|_| (d.below(9) as u8, d.flag())).collect();
    let bound = d.below(27) as u8;
    let dynamic: Vec<bool> = (0..12).map(|_| d.pct(30)).collect();
    let main = d.nodes(&level_cfg(0), 6);
    let bodies = vec![d.nodes(&level_cfg(1), 4), d.nodes(&level_cfg(2), 4), d.nodes(&level_cfg(3), 4)];
    build(main, bodies, status, bound, dynamic)
}
