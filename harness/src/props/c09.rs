//! C09 — rendering is repeatable: no state survives from one render into another.

use crate::ast::*;
use crate::astgen::{self, GenCfg};
use crate::engine::{Check, Ctx, Failure, Obs};
use crate::interp::{self, PartialDef};
use crate::lq::{self, Policy};
use crate::progs::BROKEN_SRC;
use crate::rv::{from_view, obj, st, RV};
use proptest::prelude::*;
use serde::{Deserialize, Serialize};
use serde_json::json;

#[derive(Clone, Debug, Serialize, Deserialize)]
pub struct Hist {
    /// template sources sharing one parser
    pub templates: Vec<String>,
    /// partial sources (lazy store)
    pub partials: Vec<(String, String)>,
    pub data: Vec<RV>,
    /// (template index, data index)
    pub history: Vec<(usize, usize)>,
    /// skip the cost estimate (hand-written families are known to be cheap)
    pub trusted_cost: bool,
    /// partial compilation policy of the parsers: 0 = lazy, 1 = eager, 2 = on demand
    #[serde(default)]
    pub policy: u8,
}

fn result_key(r: &lq::R<String>) -> Result<String, String> {
    match r {
        Ok(Ok(s)) => Ok(s.clone()),
        Ok(Err(e)) => Err(e.clone()),
        Err(p) => Err(format!("PANIC {}", p.what)),
    }
}

pub fn oracle(h: &Hist, obs: &mut Obs) -> Check {
    // non-trivial: a (t, d) pair repeats after a different or failed render in between
    let mut nt = false;
    for (i, c) in h.history.iter().enumerate() {
        if let Some(j) = h.history[..i].iter().position(|x| x == c) {
            if h.history[j + 1..i].iter().any(|x| x != c) || i - j >= 1 {
                nt = true;
            }
        }
    }
    let policy = [Policy::Lazy, Policy::Eager, Policy::OnDemand][h.policy as usize % 3];
    let shared = match lq::parser_with_partials(policy, &h.partials) {
        Ok(Ok(p)) => p,
        other => return Err(Failure::new("repeat: building a parser with a partial store fails", format!("{:?}", other.map(|r| r.map(|_| ())).map_err(|p| p.what)))),
    };
    let parsed: Vec<_> = h.templates.iter().map(|s| lq::parse(&shared, s)).collect();
    let objects: Vec<liquid::Object> = h.data.iter().map(|d| d.to_object()).collect();
    let before: Vec<String> = objects.iter().map(|o| from_view(o).dump()).collect();
    let mut first: std::collections::HashMap<(usize, usize), Result<String, String>> = Default::default();
    let mut any_failed = false;
    for (step, (t, d)) in h.history.iter().enumerate() {
        let got = match &parsed[*t] {
            Ok(Ok(tpl)) => lq::render(tpl, &objects[*d]).map(|r| r.map_err(|e| format!("render: {e}"))),
            Ok(Err(e)) => Ok(Err(format!("parse: {e}"))),
            Err(p) => Err(p.clone()),
        };
        if let Err(p) = &got {
            return Err(Failure::new(format!("repeat: engine panics: {}", p.site()), format!("template={:?} data={} {}", h.templates[*t], h.data[*d].dump(), p.what)));
        }
        let key = result_key(&got);
        if key.is_err() {
            any_failed = true;
        }
        // (b) freshly built parser, freshly parsed template
        let fresh = match lq::parser_with_partials(policy, &h.partials) {
            Ok(Ok(p)) => result_key(&lq::run(&p, &h.templates[*t], &objects[*d])),
            _ => Err("build".into()),
        };
        obs.extra_evals += 1;
        let describe = |what: &str, a: &Result<String, String>, b: &Result<String, String>| {
            format!("{what}\n step {step} of history {:?}\n template={:?}\n partials={:?}\n data={}\n  this render: {a:?}\n  reference  : {b:?}", h.history, h.templates[*t], h.partials, h.data[*d].dump())
        };
        if key != fresh {
            return Err(Failure::new("repeat: result differs from the same call on a freshly built parser", describe("shared parser vs fresh parser", &key, &fresh)));
        }
        match first.get(&(*t, *d)) {
            Some(f) if *f != key => return Err(Failure::new("repeat: result differs from the first time the same call was made", describe("n-th vs first occurrence", &key, f))),
            Some(_) => {}
            None => {
                first.insert((*t, *d), key);
            }
        }
    }
    let after: Vec<String> = objects.iter().map(|o| from_view(o).dump()).collect();
    if before != after {
        return Err(Failure::new("repeat: a data object was modified by rendering", format!("before={before:?} after={after:?}")));
    }
    if nt {
        obs.nt(&(h.templates.clone(), h.history.clone(), h.data.iter().map(|d| d.dump()).collect::<Vec<_>>()));
    }
    if any_failed {
        obs.class("history_with_failed_render");
    }
    obs.sample_with(|| json!({"templates": h.templates, "partials": h.partials, "data": h.data.iter().map(|d| d.dump()).collect::<Vec<_>>(), "history": h.history}));
    Ok(())
}

// ---- hand-written stateful family, all histories of length <= 3

pub fn family() -> Vec<(Vec<String>, Vec<(String, String)>, Vec<RV>)> {
    let partials = vec![
        ("p".to_string(), "(p{% cycle 'x', 'y' %}{% increment n %}{% assign leaked = 'from-p' %}{% ifchanged %}{{ k }}{% endifchanged %}{% if stop == 2 %}{% break %}{% endif %})".to_string()),
        ("q".to_string(), "(q{{ k }}{% cycle 1, 2, 3 %}{% decrement m %}{% if fail %}{{ nope }}{% endif %})".to_string()),
        ("bad".to_string(), BROKEN_SRC.to_string()),
        ("x".to_string(), "[plain {{ k }}]".to_string()),
        ("x.liquid".to_string(), "[ext {{ k }}]".to_string()),
        ("card.liquid".to_string(), "[card {{ k }}]".to_string()),
    ];
    // more distinct partials than any small cache bound
    let mut partials = partials;
    for i in 1..=100 {
        partials.push((format!("m{i}"), format!("<m{i} {{{{ k }}}}>")));
    }
    let data = vec![
        obj(vec![("arr", RV::Arr(vec![RV::Int(1), RV::Int(2), RV::Int(3)])), ("stop", RV::Int(2)), ("n", RV::Int(3)), ("name", st("Tobi")), ("fail", RV::Bool(false)), ("which", st("p")), ("dyn", st("card")), ("big", RV::Int(1200)), ("many", RV::Int(100)), ("sep", st(","))]),
        obj(vec![("arr", RV::Arr(vec![RV::Int(3), RV::Int(3), RV::Int(1)])), ("stop", RV::Int(9)), ("n", RV::Int(5)), ("name", st("Ana")), ("fail", RV::Bool(true)), ("which", st("q")), ("dyn", st("x")), ("big", RV::Int(3)), ("many", RV::Int(70)), ("sep", st("-"))]),
        obj(vec![("arr", RV::Arr(vec![])), ("stop", RV::Int(1)), ("n", RV::Int(0)), ("name", st("")), ("fail", RV::Bool(false)), ("which", st("missing")), ("dyn", st("x.liquid")), ("big", RV::Int(0)), ("many", RV::Int(3)), ("sep", st(""))]),
    ];
    let sets: Vec<Vec<&str>> = vec![
        vec![
            "{% cycle 'a', 'b', 'c' %}{% cycle g: 1, 2 %}{% increment c %}{% for i in arr %}[{% cycle 'a', 'b', 'c' %}{% ifchanged %}{{ i }}{% endifchanged %}{% if i == stop %}{% break %}{% endif %}{{ i }}]{% endfor %}{{ leaked }}",
            "{% for i in arr %}{% cycle 1, 2, 3 %}{% increment c %}{% if i == stop %}{% break %}{% endif %}{% endfor %}{% capture cap %}Hello {{ name }}{% if fail %}{{ undefined_thing }}{% endif %}{% endcapture %}<{{ cap }}>",
            "{% for i in (1..n) %}{{ i }}{% ifchanged %}{{ i | modulo: 2 }}{% endifchanged %} {% endfor %}{% for i in (n..4) %}{{ i }}{% endfor %}",
        ],
        vec![
            "{% assign a = name %}{% for i in arr %}{% include 'p' k: i %}{% endfor %}{{ a }}{{ leaked }}{% increment n %}",
            "{% for i in arr %}{% render 'q', k: i, fail: fail %}{% endfor %}{% decrement m %}",
            "{% include which %}{% render which, k: 1 %}|{% include 'bad' %}",
        ],
        vec![
            "{% render 'x', k: name %}{% include 'x.liquid' k: 1 %}{% render 'card', k: n %}",
            "{% include 'x.liquid' k: 2 %}{% include 'x' k: name %}{% render 'x.liquid', k: 3 %}",
            "{% include 'card' k: 1 %}",
        ],
        vec![
            "{% for i in arr %}{% ifchanged %}{{ i }}{% endifchanged %}{% endfor %}",
            "{% tablerow i in arr cols:2 %}{% cycle 'o', 'e' %}{{ i }}{% endtablerow %}{% for i in arr %}{% if i == stop %}{% continue %}{% endif %}{% cycle 'o', 'e' %}{% endfor %}",
            "{% for i in arr %}{% capture c %}{{ c }}{{ i }}{% endcapture %}{% if i == stop %}{% break %}{% endif %}{% endfor %}{{ c }}{{ nope.nope }}",
        ],
        // size boundaries and per-node state: a dynamic name that needs the `.liquid` fallback for
        // one datum and not for another; an output of 12 KB followed by small ones; more than 64
        // distinct partials in one render
        vec![
            "{% render dyn, k: n %}|{% render dyn, k: 2 %}",
            "{% for i in (1..big) %}0123456789{% endfor %}|{{ name }}",
            "{% for i in (1..many) %}{% capture nm %}m{{ i }}{% endcapture %}{% include nm k: i %}{% render nm, k: i %}{% endfor %}",
        ],
        // chains that start from a literal but whose filter arguments are variables: nothing about
        // them may be remembered from one evaluation to the next
        vec![
            "{% assign all = \"a,b\" | split: \",\" | concat: arr %}{{ all | join: \"-\" }}|{{ \"a,b\" | split: \",\" | concat: arr | size }}",
            "{{ \"1-2,3-4\" | split: sep | join: \"|\" }}/{{ \"x\" | append: name }}/{{ 5 | plus: n }}/{{ \"a-b\" | replace: sep, name }}",
            "{% for i in (1..n) %}{{ \"a,b,c,d,e\" | split: \",\" | slice: i, 1 | join: \"\" }}{{ \"q\" | append: i }}{% endfor %}|{{ \"k\" | split: sep | concat: arr | size }}",
        ],
    ];
    sets.into_iter().map(|t| (t.into_iter().map(String::from).collect(), partials.clone(), data.clone())).collect()
}

fn family_nth(i: u64) -> Option<Hist> {
    let fam = family();
    let d = crate::engine::decode(i, &[3, fam.len() as u64, 3, 9, 9, 9])?;
    let policy = d[0] as u8;
    let d = &d[1..];
    let len = d[1] as usize + 1;
    for j in len..3 {
        if d[2 + j] != 0 {
            return None;
        }
    }
    let (templates, partials, data) = fam[d[0] as usize].clone();
    let history = (0..len).map(|j| ((d[2 + j] / 3) as usize, (d[2 + j] % 3) as usize)).collect();
    Some(Hist { templates, partials, data, history, trusted_cost: true, policy })
}

// ---- random scenarios

fn cfg() -> GenCfg {
    GenCfg {
        names: vec!["x", "y", "z"],
        loopvars: vec!["i", "x"],
        depth: 3,
        layout: false,
        raw: false,
        comment: false,
        paths: false,
        case: false,
        filters: vec![("append", 1), ("size", 0)],
        coll_names: vec!["arr", "x"],
        wild_ranges: true,
        ops: vec!["==", "<"],
        include: true,
        render: true,
        partials: vec!["p".into(), "q".into(), "bad".into(), "missing".into()],
        ..GenCfg::all()
    }
}

fn partial_cfg() -> GenCfg {
    GenCfg { include: false, render: false, partials: vec![], depth: 2, top_level_interrupts: true, ..cfg() }
}

pub fn data_pool() -> Vec<RV> {
    vec![
        obj(vec![("x", RV::Int(2)), ("y", st("y0")), ("z", RV::Arr(vec![RV::Int(1), RV::Int(1), RV::Int(2)])), ("arr", RV::Arr(vec![RV::Int(1), RV::Int(2), RV::Int(3)]))]),
        obj(vec![("x", RV::Arr(vec![st("a"), st("a"), st("b")])), ("y", RV::Int(4)), ("arr", RV::Arr(vec![RV::Int(2), RV::Int(2)]))]),
        obj(vec![("y", RV::Bool(false)), ("z", st("zz")), ("arr", RV::Arr(vec![]))]),
        obj(vec![("x", RV::Int(3)), ("y", RV::Int(1)), ("z", RV::Int(3)), ("arr", RV::Arr(vec![RV::Int(3), RV::Int(1), RV::Int(3), RV::Int(3)]))]),
        obj(vec![("x", st(&format!("x{}", "é".repeat(40)))), ("y", st(&format!("abc{}", "😀".repeat(12)))), ("z", RV::Arr(vec![st(&"ß".repeat(33))])), ("arr", RV::Arr(vec![st(&format!("x{}", "é".repeat(40)))]))]),
    ]
}

fn random_hist(max_len: usize) -> BoxedStrategy<Hist> {
    (
        proptest::collection::vec(astgen::nodes(&cfg(), 5), 2..=3),
        astgen::nodes(&partial_cfg(), 4),
        astgen::nodes(&partial_cfg(), 4),
        proptest::collection::vec((0usize..3, 0usize..3), 2..=max_len),
        proptest::sample::subsequence(data_pool(), 2..=3),
        0u8..3,
    )
        .prop_filter_map("explosive program", |(templates, p, q, history, data, policy)| {
            let defs = vec![("p".to_string(), PartialDef::Ok(p.clone())), ("q".to_string(), PartialDef::Ok(q.clone())), ("bad".to_string(), PartialDef::Broken)];
            for t in &templates {
                for d in &data {
                    if !interp::cost_ok(t, d, &defs) {
                        return None;
                    }
                }
            }
            let nt = templates.len();
            let nd = data.len();
            Some(Hist {
                templates: templates.iter().map(|t| print(t)).collect(),
                partials: vec![("p".into(), print(&p)), ("q".into(), print(&q)), ("bad".into(), BROKEN_SRC.into())],
                data,
                history: history.into_iter().map(|(t, d)| (t % nt, d % nd)).collect(),
                trusted_cost: false,
                policy,
            })
        })
        .boxed()
}

pub fn run(ctx: &Ctx) {
    ctx.set_rule("E2: three hand-written families of 3 stateful templates (cycle named and unnamed, increment/decrement, ifchanged, assign, capture that fails midway, break/continue, ranges with variable bounds, include/render of partials that cycle/assign/break/fail, a broken and a missing partial) x 3 data objects sharing one parser, under each partial compilation policy (lazy, eager, on demand): every history of <= 3 render calls (9 + 81 + 729 per family); E1: random histories of 2..6 (thorough 10) calls over 2-3 generated templates (all stateful constructs, partial calls, failing reads) x 2-3 data objects. Oracle: every call's result (output or error text) equals the first occurrence of the same call and the same call on a freshly built parser with a freshly parsed template; data objects deep-compared. Non-trivial = a (template, data) pair repeats in the history; distinct by (templates, data, history).");
    ctx.assume("multi-key object iteration is never observed by the generated templates; the same data Object instance is used for all renders of a history");
    let n = family().len() as u64;
    ctx.exhaustive("family_histories", 3 * n * 3 * 9 * 9 * 9, family_nth, oracle);
    let max_len = ctx.pick(6, 10);
    ctx.random("random_histories", ctx.pick(40_000, 2_000_000), move || random_hist(max_len), oracle);
}
