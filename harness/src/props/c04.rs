//! C04 — scoping: innermost binding wins, assignments persist, caller data untouched.

use crate::ast::*;
use crate::astgen::{self, GenCfg};
use crate::engine::{Check, Ctx, Failure, Obs};
use crate::progs::{self, with_probes, PDef, Scenario};
use crate::rv::{obj, st, RV};
use proptest::prelude::*;
use serde::{Deserialize, Serialize};

const NAMES: [&str; 2] = ["x", "y"];

/// statement forms of the enumerated grammar
#[derive(Clone, Debug, Serialize, Deserialize)]
pub enum S {
    Assign(usize),
    /// assign the integer 7 (what the enumerated loops bind first) / the string every include passes
    AssignSeven(usize),
    AssignArg(usize),
    Incr(usize),
    Decr(usize),
    Include(usize),
    Capture(usize, Vec<S>),
    For(usize, Vec<S>),
    If(usize, Vec<S>),
}

fn simple(i: u64) -> S {
    let n = (i % 2) as usize;
    match i / 2 {
        0 => S::Assign(n),
        1 => S::Incr(n),
        2 => S::Decr(n),
        3 => S::Include(n),
        4 => S::AssignSeven(n),
        _ => S::AssignArg(n),
    }
}
const SIMPLE: u64 = 12;

/// 90 statement options: 12 simple + 3 nesting kinds x 2 names x (empty body | one of 12 simple)
fn option(i: u64) -> S {
    if i < SIMPLE {
        return simple(i);
    }
    let i = i - SIMPLE;
    let inner = i % (SIMPLE + 1);
    let body = if inner == 0 { vec![] } else { vec![simple(inner - 1)] };
    let n = ((i / (SIMPLE + 1)) % 2) as usize;
    match i / (2 * (SIMPLE + 1)) {
        0 => S::Capture(n, body),
        1 => S::For(n, body),
        _ => S::If(n, body),
    }
}
const OPTIONS: u64 = SIMPLE + 3 * 2 * (SIMPLE + 1);

fn lower(stmts: &[S], site: &mut u32) -> Vec<Node> {
    let mut out = Vec::new();
    for s in stmts {
        *site += 1;
        let id = *site;
        out.push(match s {
            S::Assign(n) => Node::Assign { name: NAMES[*n].into(), e: Expr::str(&format!("a{id}")), filters: vec![], t: Tr::PLAIN },
            S::AssignSeven(n) => Node::Assign { name: NAMES[*n].into(), e: Expr::int(7), filters: vec![], t: Tr::PLAIN },
            S::AssignArg(n) => Node::Assign { name: NAMES[*n].into(), e: Expr::str("arg"), filters: vec![], t: Tr::PLAIN },
            S::Incr(n) => Node::Incr { name: NAMES[*n].into(), t: Tr::PLAIN },
            S::Decr(n) => Node::Decr { name: NAMES[*n].into(), t: Tr::PLAIN },
            S::Include(n) => Node::Include { name: Expr::str("p"), args: vec![(NAMES[*n].to_string(), Expr::str("arg"))], t: Tr::PLAIN },
            S::Capture(n, b) => {
                // a capture holding nothing prints nothing and must still (re)bind its name
                let mut body = if b.is_empty() { vec![] } else { vec![Node::Text(format!("c{id}"))] };
                body.extend(lower(b, site));
                Node::Capture { name: NAMES[*n].into(), body, open: Tr::PLAIN, close: Tr::PLAIN }
            }
            S::For(n, b) => Node::For {
                var: NAMES[*n].into(),
                coll: Coll::Range(Expr::int(7), Expr::int(8)),
                limit: None,
                offset: None,
                reversed: false,
                body: lower(b, site),
                else_: None,
                open: Tr::PLAIN,
                close: Tr::PLAIN,
            },
            S::If(n, b) => Node::If { arms: vec![(Cond::truthy(Expr::var(NAMES[*n])), lower(b, site), Tr::PLAIN)], else_: Some((vec![Node::Text("else".into())], Tr::PLAIN)), close: Tr::PLAIN },
        });
    }
    out
}

fn partial_p() -> Vec<Node> {
    let mut v = vec![Node::Text("(p:".into())];
    v.extend(progs::probes(&NAMES));
    v.push(Node::Assign { name: "y".into(), e: Expr::str("py"), filters: vec![], t: Tr::PLAIN });
    v.extend(progs::probes(&NAMES));
    // an assignment equal to what the include argument currently shows for x must still bind globally
    v.push(Node::Assign { name: "x".into(), e: Expr::str("arg"), filters: vec![], t: Tr::PLAIN });
    v.extend(progs::probes(&NAMES));
    v.push(Node::Text(")".into()));
    v
}

#[derive(Clone, Debug, Serialize, Deserialize)]
pub struct Enumerated {
    pub stmts: Vec<S>,
    /// base-3 digit i: caller data leaves NAMES[i] unbound / binds a string / binds an object with member `a`
    pub bound: u8,
}

fn data_value(name: &str, how: u8) -> Option<RV> {
    match how {
        0 => None,
        1 => Some(st(&format!("data-{name}"))),
        _ => Some(obj(vec![("a", st(&format!("data-{name}.a")))])),
    }
}

fn scenario_of(e: &Enumerated) -> Scenario {
    let mut site = 0;
    let main = with_probes(&lower(&e.stmts, &mut site), &NAMES);
    let mut data = Vec::new();
    for (i, n) in NAMES.iter().enumerate() {
        if let Some(v) = data_value(n, e.bound / 3u8.pow(i as u32) % 3) {
            data.push((*n, v));
        }
    }
    Scenario { main, partials: vec![("p".into(), PDef::Ok(partial_p()))], data: obj(data) }
}

fn run_scenario(sc: &Scenario, obs: &mut Obs, key: u64) -> Check {
    let (stats, engine_ran) = progs::differential(sc, obs, "scope")?;
    if engine_ran {
        obs.extra_evals += 1;
        data_untouched(sc)?;
    }
    if !stats.shadow_pairs.is_empty() {
        obs.nt(&key);
        for ((a, b), _) in stats.shadow_pairs.iter() {
            obs.class(match (a, b) {
                (crate::interp::Layer::Local, crate::interp::Layer::Local) => "shadow:local>local",
                (crate::interp::Layer::Local, crate::interp::Layer::Global) => "shadow:local>global",
                (crate::interp::Layer::Local, crate::interp::Layer::Data) => "shadow:local>data",
                (crate::interp::Layer::Local, crate::interp::Layer::Counter) => "shadow:local>counter",
                (crate::interp::Layer::Global, crate::interp::Layer::Data) => "shadow:global>data",
                (crate::interp::Layer::Global, crate::interp::Layer::Counter) => "shadow:global>counter",
                (crate::interp::Layer::Data, crate::interp::Layer::Counter) => "shadow:data>counter",
                _ => "shadow:other",
            });
        }
    }
    Ok(())
}

fn enum_oracle(e: &Enumerated, obs: &mut Obs) -> Check {
    let sc = scenario_of(e);
    run_scenario(&sc, obs, crate::engine::hash_of(&format!("{e:?}")))?;
    // strict probes: the conditional probe reads members through the optional lookup only; here
    // `{{ n.a }}` is printed unconditionally after the program, so that the failing form of the
    // lookup is held to the innermost binding too (an error when that binding has no member `a`,
    // whatever an outer layer holds)
    // (programs of one or two statements: every pair of binding forms; length 3 would triple the
    // thorough tier for no new pair)
    if !e.stmts.is_empty() && e.stmts.len() <= 2 {
        for n in NAMES {
            let mut site = 0;
            let mut main = lower(&e.stmts, &mut site);
            main.push(Node::Text("[".into()));
            main.push(Node::Out { e: Expr::path(n, &["a"]), filters: vec![], t: Tr::PLAIN });
            main.push(Node::Text("]".into()));
            let strict = Scenario { main, partials: sc.partials.clone(), data: sc.data.clone() };
            let (_, ran) = progs::differential(&strict, obs, "scope(strict probe)")?;
            if ran {
                obs.extra_evals += 1;
            }
        }
    }
    Ok(())
}

/// The engine must leave the very object it was given untouched: render with a long-lived
/// Object and deep-compare it with an independently built copy afterwards.
fn data_untouched(sc: &Scenario) -> Check {
    let globals = sc.data.to_object();
    let copy = sc.data.to_object();
    let p = match crate::lq::parser_with_partials(crate::lq::Policy::Eager, &sc.sources()) {
        Ok(Ok(p)) => p,
        _ => return Ok(()),
    };
    let _ = crate::lq::run(&p, &sc.main_src(), &globals);
    if globals != copy || crate::rv::from_view(&globals).dump() != crate::rv::from_view(&copy).dump() {
        return Err(Failure::new("scope: the caller's data object was modified by a render", format!("main={:?} before={} after={}", sc.main_src(), crate::rv::from_view(&copy).dump(), crate::rv::from_view(&globals).dump())));
    }
    Ok(())
}

fn seq_nth(i: u64, len: usize) -> Option<Enumerated> {
    let mut radices = vec![9u64];
    radices.extend(std::iter::repeat(OPTIONS).take(len));
    let d = crate::engine::decode(i, &radices)?;
    Some(Enumerated { stmts: d[1..].iter().map(|o| option(*o)).collect(), bound: d[0] as u8 })
}

// ---- random tier

// the third name is one the path resolver also knows as a built-in member (`size`): as a variable
// it must behave like any other name
const RNAMES: [&str; 3] = ["x", "y", "size"];

fn rand_cfg() -> GenCfg {
    GenCfg {
        names: RNAMES.to_vec(),
        loopvars: vec!["x", "y"],
        depth: 4,
        layout: false,
        cycle: false,
        ifchanged: false,
        raw: false,
        comment: false,
        tablerow: false,
        case: false,
        interrupts: false,
        paths: false,
        filters: vec![("append", 1)],
        forloop_refs: false,
        coll_names: vec!["arr"],
        wild_ranges: false,
        ops: vec![],
        include: true,
        partials: vec!["p".into(), "q".into()],
        undefined_pct: 0,
        ..GenCfg::all()
    }
}

fn partial_cfg() -> GenCfg {
    GenCfg { include: false, partials: vec![], depth: 2, ..rand_cfg() }
}

fn rand_build(main: Vec<Node>, p: Vec<Node>, q: Vec<Node>, bound: u8) -> Scenario {
    {
        {
            let mut data = vec![("arr", RV::Arr(vec![st("e1"), st("e2")]))];
            for (i, n) in RNAMES.iter().enumerate() {
                if let Some(v) = data_value(n, bound / 3u8.pow(i as u32) % 3) {
                    data.push((*n, v));
                }
            }
            Scenario { main: with_probes(&main, &RNAMES), partials: vec![("p".into(), PDef::Ok(with_probes(&p, &RNAMES))), ("q".into(), PDef::Ok(with_probes(&q, &RNAMES)))], data: obj(data) }
        }
    }
}

fn rand_strategy() -> BoxedStrategy<Scenario> {
    (astgen::nodes(&rand_cfg(), 6), astgen::nodes(&partial_cfg(), 3), astgen::nodes(&partial_cfg(), 3), 0u8..27).prop_map(|(main, p, q, bound)| rand_build(main, p, q, bound)).boxed()
}

/// Byte-driven twin of `rand_strategy` (engine E6b, see astdec.rs).
pub fn fuzz_case(d: &mut crate::astdec::Dec) -> Scenario {
    let bound = d.below(27) as u8;
    let main = d.nodes(&rand_cfg(), 6);
    let p = d.nodes(&partial_cfg(), 3);
    let q = d.nodes(&partial_cfg(), 3);
    rand_build(main, p, q, bound)
}

pub fn rand_oracle(sc: &Scenario, obs: &mut Obs) -> Check {
    if std::env::var("VERIF_NOOP").is_ok() {
        return Ok(());
    }
    run_scenario(sc, obs, crate::engine::hash_of(&(sc.main_src(), sc.data.dump())))
}

pub fn run(ctx: &Ctx) {
    ctx.set_rule("E2: every program of <= 2 statements (thorough: <= 3; quick adds a strided slice of length 3) over names {x, y} from 90 statement forms (assign of a fresh value / of the value a loop or include argument currently shows, increment, decrement, include-with-argument, and capture / for / if holding nothing or one simple statement) x all 9 ways the caller binds each name (unbound / string / object with a member); the probe [{% if n.a %}obj:{{ n.a }}{% elsif n %}{{ n }}{% else %}~{% endif %}] for every name is inserted before and after every statement and at the start of every body, also inside the included partial; each program is run twice more with an unconditional {{ n.a }} appended (the failing lookup form must follow the innermost binding as well); E1: random programs to depth 4 over {x, y, z} with loop variables named like data names, capture, counters, include of two partials. Oracle: reference interpreter; caller's Object deep-compared after the render. Non-trivial = some probe found the same name bound in >= 2 layers (measured by the reference interpreter, per layer pair); distinct by program.");
    for len in 1..=2usize {
        ctx.exhaustive(&format!("programs_len{len}"), 9 * OPTIONS.pow(len as u32), move |i| seq_nth(i, len), enum_oracle);
    }
    ctx.strided("programs_len3", 9 * OPTIONS.pow(3), ctx.pick(89, 1), |i| seq_nth(i, 3), enum_oracle);
    ctx.random("random_programs", ctx.pick(40_000, 600_000), rand_strategy, rand_oracle);
}
