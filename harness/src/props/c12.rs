//! C12 — all views and conversions of a datum agree (owned, borrowed, serde, derive).

use crate::engine::{guard, Check, Ctx, Failure, Obs};
use crate::lq::{self, Conf};
use crate::props::c17::{mk, Ts};
use crate::rv::{from_view, RV};
use liquid::model::{Date, KString, State, Value, ValueCow};
use liquid::{ObjectView, ValueView};
use liquid_core::model::ValueView as _;
use proptest::prelude::*;
use serde::{Deserialize, Serialize};
use std::collections::{BTreeMap, HashMap};

// ------------------------------------------------------------------------------------------
// (a) views of a Value

/// serialisable description of a datum (RV plus dates)
#[derive(Clone, Debug, Serialize, Deserialize)]
pub enum D {
    V(RV),
    DateTime(Ts),
    Date(i32, u8, u8),
    Arr(Vec<D>),
    Obj(Vec<(String, D)>),
}

fn build(d: &D) -> Value {
    match d {
        D::V(rv) => rv.to_value(),
        D::DateTime(ts) => Value::scalar(mk(ts)),
        D::Date(y, m, dd) => Value::scalar(Date::from_ymd(*y, *m, *dd)),
        D::Arr(a) => Value::Array(a.iter().map(build).collect()),
        D::Obj(o) => {
            let mut obj = liquid::Object::new();
            for (k, v) in o {
                obj.insert(k.clone().into(), build(v));
            }
            Value::Object(obj)
        }
    }
}

fn has_multikey(v: &dyn liquid_core::ValueView) -> bool {
    if let Some(o) = v.as_object() {
        return o.size() > 1 || o.values().any(has_multikey);
    }
    if let Some(a) = v.as_array() {
        return a.values().any(has_multikey);
    }
    false
}

fn non_finite(v: &dyn liquid_core::ValueView) -> bool {
    if let Some(o) = v.as_object() {
        return o.values().any(non_finite);
    }
    if let Some(a) = v.as_array() {
        return a.values().any(non_finite);
    }
    v.type_name() == "fractional number" && v.as_scalar().and_then(|s| s.to_float()).map(|f| !f.is_finite()).unwrap_or(false)
}

/// everything observable about a view (order-independent where `ordered` is false)
fn fingerprint(v: &dyn liquid_core::ValueView, ordered: bool) -> Vec<String> {
    let mut f = vec![
        format!("type_name={}", v.type_name()),
        format!("truthy={}", v.query_state(State::Truthy)),
        format!("default={}", v.query_state(State::DefaultValue)),
        format!("empty={}", v.query_state(State::Empty)),
        format!("blank={}", v.query_state(State::Blank)),
        format!("is_nil={}", v.is_nil()),
        format!("is_scalar={}", v.is_scalar()),
        format!("is_array={}", v.is_array()),
        format!("is_object={}", v.is_object()),
        format!("structure={}", from_view(v).dump()),
        format!("to_value={}", from_view(&v.to_value()).dump()),
    ];
    if let Some(s) = v.as_scalar() {
        f.push(format!("to_integer={:?}", s.to_integer()));
        f.push(format!("to_float={:?}", s.to_float().map(|x| x.to_bits())));
        f.push(format!("to_bool={:?}", s.to_bool()));
    }
    if ordered {
        f.push(format!("to_kstr={:?}", v.to_kstr().as_str()));
        f.push(format!("render={:?}", v.render().to_string()));
        f.push(format!("source={:?}", v.source().to_string()));
    }
    f
}

fn diff(a: &[String], b: &[String]) -> String {
    a.iter().zip(b).filter(|(x, y)| x != y).map(|(x, y)| format!("[{x} vs {y}]")).collect::<Vec<_>>().join(" ")
}

fn kind_of_json(j: &serde_json::Value) -> &'static str {
    match j {
        serde_json::Value::Null => "nil",
        serde_json::Value::Bool(_) => "boolean",
        serde_json::Value::Number(n) => {
            if n.is_i64() || n.is_u64() {
                "whole number"
            } else {
                "fractional number"
            }
        }
        serde_json::Value::String(_) => "string",
        serde_json::Value::Array(_) => "array",
        serde_json::Value::Object(_) => "object",
    }
}

fn views_oracle(d: &D, obs: &mut Obs) -> Check {
    let v = build(d);
    let ordered = !has_multikey(&v);
    let interesting = v.is_array() || v.is_object() || matches!(v.type_name(), "date" | "date time") || matches!(d, D::V(RV::Int(i)) if i.unsigned_abs() >= 1 << 53);
    if interesting {
        obs.nt(&format!("{d:?}"));
    }
    let base = fingerprint(&v, ordered);
    let describe = |name: &str, other: &[String]| format!("datum={} view={name} differences: {}", from_view(&v).dump(), diff(&base, other));
    let mut check = |name: &str, w: &dyn liquid_core::ValueView, full: bool| -> Check {
        let fp = fingerprint(w, ordered && full);
        let basefp = if ordered && !full { fingerprint(&v, false) } else { base.clone() };
        if fp != basefp {
            return Err(Failure::new(format!("views: {name} disagrees with the value itself"), describe(name, &fp)));
        }
        Ok(())
    };
    check("&v", &&v, true)?;
    let owned = ValueCow::Owned(v.clone());
    check("ValueCow::Owned", &owned, true)?;
    let borrowed = ValueCow::Borrowed(&v);
    check("ValueCow::Borrowed", &borrowed, true)?;
    if !(owned == borrowed) || !(borrowed == v) {
        return Err(Failure::new("views: owned and borrowed forms are not equal", from_view(&v).dump()));
    }
    check("to_value()", &v.to_value(), true)?;
    check("as_view()", v.as_view(), true)?;
    check("Some(v)", &Some(v.clone()), true)?;
    if v.is_nil() {
        check("None::<Value>", &None::<Value>, true)?;
        check("None::<i64>", &None::<i64>, true)?;
        check("&None::<String>", &&None::<String>, true)?;
    }
    // serde: Rust data -> Value -> Rust data
    match guard(|| liquid::model::to_value(&v)) {
        Err(p) => return Err(Failure::new(format!("views: to_value panics: {}", p.site()), p.what)),
        Ok(Err(e)) => return Err(Failure::new("views: to_value(&Value) fails", format!("{} {e}", from_view(&v).dump()))),
        Ok(Ok(w)) => {
            // dates become their string form through serde by design: compare structure only then
            let has_date = from_view(&v).dump().contains("@date");
            if !has_date {
                check("to_value(&v) (serde)", &w, false)?;
                if w != v {
                    return Err(Failure::new("views: serde round trip is not equal to the original", from_view(&v).dump()));
                }
            }
        }
    }
    match guard(|| liquid::model::from_value::<Value>(&v)) {
        Err(p) => return Err(Failure::new(format!("views: from_value panics: {}", p.site()), p.what)),
        Ok(Err(e)) => return Err(Failure::new("views: from_value::<Value> fails", format!("{} {e}", from_view(&v).dump()))),
        Ok(Ok(w)) => {
            check("from_value::<Value>", &w, false)?;
        }
    }
    // kind preservation into a foreign self-describing type
    if !non_finite(&v) {
        match guard(|| liquid::model::from_value::<serde_json::Value>(&v)) {
            Err(p) => return Err(Failure::new(format!("views: from_value panics: {}", p.site()), p.what)),
            Ok(Err(e)) => return Err(Failure::new("views: from_value::<serde_json::Value> fails", format!("{} {e}", from_view(&v).dump()))),
            Ok(Ok(j)) => {
                let want = match v.type_name() {
                    "date" | "date time" => "string",
                    "nil" => "nil",
                    t => t,
                };
                let want = if v.is_nil() { "nil" } else { want };
                if kind_of_json(&j) != want {
                    return Err(Failure::new("views: deserialising into a self-describing type changes the kind", format!("datum={} became {j}", from_view(&v).dump())));
                }
            }
        }
        // JSON / YAML text round trips
        let js = serde_json::to_string(&v).map_err(|e| Failure::new("views: JSON serialisation fails", e.to_string()))?;
        let back: Value = serde_json::from_str(&js).map_err(|e| Failure::new("views: JSON text of a value does not deserialise", format!("{js} {e}")))?;
        check("serde_json text round trip", &back, false).map_err(|f| Failure::new(f.sig, format!("json={js} {}", f.detail)))?;
        let ys = serde_yaml::to_string(&v).map_err(|e| Failure::new("views: YAML serialisation fails", e.to_string()))?;
        // The YAML crate's own emitter does not quote every string its own parser reads as a
        // number (e.g. "0o0"): when the crate does not round-trip its OWN document tree through
        // that text, the difference is the crate's, not the value model's (found by the thorough tier)
        let own_tree: Option<serde_yaml::Value> = serde_yaml::to_value(&v).ok();
        let own_back: Option<serde_yaml::Value> = serde_yaml::from_str(&ys).ok();
        if own_tree.is_some() && own_tree == own_back {
            let back: Value = serde_yaml::from_str(&ys).map_err(|e| Failure::new("views: YAML text of a value does not deserialise", format!("{ys:?} {e}")))?;
            check("serde_yaml text round trip", &back, false).map_err(|f| Failure::new(f.sig, format!("yaml={ys:?} {}", f.detail)))?;
        } else {
            obs.class("yaml_crate_does_not_round_trip_its_own_text");
        }
    }
    obs.extra_evals += 9;
    Ok(())
}

fn leaf() -> BoxedStrategy<D> {
    prop_oneof![
        6 => crate::gen::scalar_rv().prop_filter("no date-looking strings, no NaN", |v| match v {
            RV::Str(s) => liquid::model::DateTime::from_str(s).is_none() && Date::from_str(s).is_none(),
            // serde_json's default float parser is not exactly round-tripping: only dyadic
            // rationals of moderate size (and the infinities, which skip the text routes)
            RV::Float(f) => !f.0.is_nan() && (!f.0.is_finite() || ((f.0 * 1024.0).fract() == 0.0 && f.0.abs() < 1e6) || f.0 == 1e18),
            _ => true,
        }).prop_map(D::V),
        1 => (-100_000i64..100_000, 0u32..11).prop_map(|(m, e)| D::V(crate::rv::fl(m as f64 / (1u64 << e) as f64))),
        1 => (0i64..2_000_000_000, prop_oneof![Just(0u32), Just(5_000_000), Just(250_000), Just(500), 0u32..1_000_000_000], (-12 * 60..=14 * 60i32)).prop_map(|(unix, nanos, m)| D::DateTime(Ts { unix, nanos, offset: m * 60 })),
        1 => (1i32..9999, 1u8..=12, 1u8..=28).prop_map(|(y, m, d)| D::Date(y, m, d)),
    ]
    .boxed()
}

fn datum() -> BoxedStrategy<D> {
    leaf()
        .prop_recursive(4, 48, 6, |inner| {
            prop_oneof![
                2 => proptest::collection::vec(inner.clone(), 0..6).prop_map(D::Arr),
                2 => proptest::collection::vec((crate::gen::key_name(), inner), 0..=6).prop_map(|kv| {
                    let mut seen = std::collections::HashSet::new();
                    D::Obj(kv.into_iter().filter(|(k, _)| seen.insert(k.clone())).collect())
                }),
            ]
        })
        .boxed()
}

// ------------------------------------------------------------------------------------------
// (b) derived structs vs serde

#[derive(ObjectView, ValueView, Serialize, Deserialize, Debug, Clone, PartialEq)]
pub struct Empty {}

#[derive(ObjectView, ValueView, Serialize, Deserialize, Debug, Clone, PartialEq)]
pub struct Flat {
    pub b: bool,
    pub i: i64,
    pub small: i32,
    pub f: f64,
    pub s: String,
    pub k: KString,
    pub arr: Vec<i64>,
    pub strs: Vec<String>,
    pub opt: Option<i64>,
    pub opt_s: Option<String>,
    /// a field whose name collides with the special name
    pub size: i64,
    /// a field that needs a raw identifier in Rust; serde calls it `type`
    #[serde(default)]
    pub r#type: i64,
}

#[derive(ObjectView, ValueView, Serialize, Deserialize, Debug, Clone, PartialEq)]
pub struct Nested {
    pub flat: Flat,
    pub list: Vec<Flat>,
    pub maybe: Option<Flat>,
    pub map: BTreeMap<String, i64>,
    pub hm: HashMap<String, String>,
    pub e: Empty,
    pub first: String,
}

#[derive(ObjectView, ValueView, Serialize, Debug, Clone)]
pub struct Globals {
    pub s: Nested,
}

/// serde-only shapes: enums, tuples, newtypes
#[derive(Serialize, Deserialize, Debug, Clone, PartialEq)]
pub enum Shape {
    Unit,
    Newtype(i64),
    Tuple(i64, String),
    Struct { a: i64, b: Option<bool> },
}

#[derive(Serialize, Deserialize, Debug, Clone, PartialEq)]
pub struct Wrapper(pub i64);

#[derive(Serialize, Deserialize, Debug, Clone, PartialEq)]
pub struct SerdeOnly {
    pub shape: Shape,
    pub tuple: (i64, bool, String),
    pub newtype: Wrapper,
    pub unit: (),
    pub nested_opt: Option<Option<i64>>,
    pub bytes: Vec<u8>,
    pub ch: char,
    pub float32: f32,
    pub unsigned: u32,
}

fn text() -> BoxedStrategy<String> {
    prop_oneof![3 => proptest::sample::select(vec!["", " ", "a", "Hello", "é", "1", "true", "x y", "\n", "\u{a0}", "\u{2028}\u{3000}", " \u{85}\t", "\u{b}", "\u{a0}x", "\u{feff}"]).prop_map(String::from), 1 => crate::gen::text(6)]
        .prop_filter("no date-looking", |s| liquid::model::DateTime::from_str(s).is_none() && Date::from_str(s).is_none())
        .boxed()
}

fn flat() -> BoxedStrategy<Flat> {
    let f = prop_oneof![proptest::sample::select(vec![0.0f64, -0.0, 0.5, 1.0, 2.5, -3.25, 1e18]), (-1000i64..1000).prop_map(|k| k as f64 / 8.0)];
    (
        any::<bool>(),
        prop_oneof![proptest::sample::select(vec![0i64, 1, -1, i64::MAX, i64::MIN, 1 << 53]), -100i64..100],
        any::<i32>(),
        f,
        text(),
        text(),
        proptest::collection::vec(-5i64..5, 0..4),
        proptest::collection::vec(text(), 0..3),
        proptest::option::of(-5i64..5),
        proptest::option::of(text()),
        -3i64..30,
    )
        .prop_map(|(b, i, small, f, s, k, arr, strs, opt, opt_s, size)| Flat { b, i, small, f, s, k: KString::from_string(k), arr, strs, opt, opt_s, size, r#type: size + 1 })
        .boxed()
}

fn nested() -> BoxedStrategy<Nested> {
    (flat(), proptest::collection::vec(flat(), 0..3), proptest::option::of(flat()), proptest::collection::btree_map(proptest::sample::select(vec!["a", "b", "size", "z"]).prop_map(String::from), -9i64..9, 0..4), proptest::option::of((proptest::sample::select(vec!["k", "first"]).prop_map(String::from), text())), text())
        .prop_map(|(flat, list, maybe, map, hm, first)| Nested { flat, list, maybe, map, hm: hm.into_iter().collect(), e: Empty {}, first })
        .boxed()
}

/// field paths and probes rendered through both routes
fn probe_template(n: &Nested) -> String {
    // (path, does every step exist for this instance?) — comparisons evaluate strictly, so they
    // are only emitted for paths that exist; the bare `if` probe is emitted for all of them
    let mut paths: Vec<(String, bool)> = Vec::new();
    let flat_fields = ["b", "i", "small", "f", "s", "k", "arr", "strs", "opt", "opt_s", "size"];
    for f in flat_fields {
        paths.push((format!("s.flat.{f}"), true));
        paths.push((format!("s.maybe.{f}"), n.maybe.is_some()));
        for i in 0..n.list.len().min(2) {
            paths.push((format!("s.list[{i}].{f}"), true));
        }
    }
    paths.push(("s.list[-1].i".into(), !n.list.is_empty()));
    paths.push(("s.list.size".into(), true));
    paths.push(("s.list.first.s".into(), !n.list.is_empty()));
    paths.push(("s.flat.arr[0]".into(), !n.flat.arr.is_empty()));
    paths.push(("s.flat.arr[-1]".into(), !n.flat.arr.is_empty()));
    paths.push(("s.flat.arr.size".into(), true));
    paths.push(("s.flat.arr.first".into(), !n.flat.arr.is_empty()));
    paths.push(("s.flat.strs.last".into(), !n.flat.strs.is_empty()));
    paths.push(("s.first".into(), true));
    paths.push(("s.e.size".into(), true));
    paths.push(("s.size".into(), true));
    paths.push(("s.maybe".into(), true));
    paths.push(("s.flat.missing".into(), false));
    for k in ["a", "b", "size", "z"] {
        paths.push((format!("s.map.{k}"), n.map.contains_key(k) || k == "size"));
        paths.push((format!("s.map['{k}']"), n.map.contains_key(k) || k == "size"));
    }
    paths.push(("s.hm.k".into(), n.hm.contains_key("k")));
    paths.push(("s.hm.first".into(), n.hm.contains_key("first")));
    paths.push(("s.hm.size".into(), true));
    let mut t = String::new();
    for (p, exists) in &paths {
        // every probe is non-failing: `if` reads leniently, the output is guarded by it
        t.push_str(&format!("<{p}:{{% if {p} %}}T{{{{ {p} | size }}}}{{% else %}}F{{% endif %}}"));
        if *exists {
            t.push_str(&format!("{{% if {p} == empty %}}E{{% endif %}}{{% if {p} == blank %}}B{{% endif %}}{{% if {p} == nil %}}N{{% endif %}}{{% if {p} != false %}}X{{% endif %}}"));
        }
        t.push('>');
    }
    for p in ["s.flat.b", "s.flat.i", "s.flat.small", "s.flat.f", "s.flat.s", "s.flat.k", "s.flat.arr", "s.flat.strs", "s.flat.size", "s.first", "s.flat.opt", "s.flat.opt_s"] {
        t.push_str(&format!("[{{{{ {p} }}}}|{{{{ {p} | default: 'D' }}}}]"));
    }
    t.push_str("{% for x in s.flat.arr %}({{ x }}/{{ forloop.length }}){% endfor %}{% for x in s.list %}({{ x.i }}{{ x.s }}){% else %}nolist{% endfor %}{% for x in s.flat.strs reversed %}{{ x }},{% endfor %}");
    t.push_str("{% if s.flat contains 'i' %}C1{% endif %}{% if s.flat contains 'nope' %}C2{% endif %}{% if s.flat.arr contains 1 %}C3{% endif %}{% if s.flat.strs contains 'a' %}C4{% endif %}{% if s.map contains 'a' %}C5{% endif %}");
    t.push_str("{{ s.flat.arr | join: '-' }}|{{ s.flat.arr | first }}|{{ s.list | map: 'i' | join: ',' }}|{{ s.list | where: 'b' | size }}|{{ s.flat.strs | sort | join: ',' }}|{{ s.flat.i | plus: 0 }}|{{ s.flat.f | round }}");
    t
}

fn derive_oracle(n: &Nested, obs: &mut Obs) -> Check {
    obs.nt(&format!("{n:?}"));
    let g = Globals { s: n.clone() };
    let via_serde = match guard(|| liquid::to_object(&g)) {
        Err(p) => return Err(Failure::new(format!("derive: to_object panics: {}", p.site()), p.what)),
        Ok(Err(e)) => return Err(Failure::new("derive: to_object of a serialisable struct fails", format!("{n:?} {e}"))),
        Ok(Ok(o)) => o,
    };
    let src = probe_template(n);
    let a = lq::with_parser(Conf::Stdlib, |p| match lq::parse(p, &src) {
        Ok(Ok(t)) => guard(|| t.render(&g).map_err(|e| e.to_string())),
        Ok(Err(e)) => Ok(Err(format!("parse: {e}"))),
        Err(p) => Err(p),
    });
    let b = lq::with_parser(Conf::Stdlib, |p| lq::run(p, &src, &via_serde));
    obs.extra_evals += 1;
    match (&a, &b) {
        (Ok(Ok(x)), Ok(Ok(y))) if x == y => {}
        _ => {
            let (x, y) = (lq::show(&a), lq::show(&b));
            let at = x.chars().zip(y.chars()).position(|(p, q)| p != q).unwrap_or(0);
            let ctx = |s: &str| s.chars().skip(at.saturating_sub(60)).take(160).collect::<String>();
            return Err(Failure::new("derive: a struct exposed through the derive macros renders differently from the same struct converted through serde", format!("struct={n:?}\n derive: ...{}\n serde : ...{}", ctx(&x), ctx(&y))));
        }
    }
    // walk both object views field by field through the ObjectView API (no Runtime in between)
    fn walk(path: &str, a: &dyn liquid_core::ValueView, b: &dyn liquid_core::ValueView) -> Check {
        let (fa, fb) = (fingerprint(a, false), fingerprint(b, false));
        if fa != fb {
            return Err(Failure::new("derive: a field viewed through the derive macros answers differently from the serde conversion", format!("path={path} differences: {}", diff(&fa, &fb))));
        }
        if let (Some(x), Some(y)) = (a.as_object(), b.as_object()) {
            if x.size() != y.size() {
                return Err(Failure::new("derive: object size differs between derive and serde", format!("path={path} {} vs {}", x.size(), y.size())));
            }
            for (k, va) in x.iter() {
                match y.get(k.as_str()) {
                    Some(vb) => walk(&format!("{path}.{k}"), va, vb)?,
                    None => return Err(Failure::new("derive: a key exists only through the derive macros", format!("path={path}.{k}"))),
                }
                if !x.contains_key(k.as_str()) || x.get(k.as_str()).is_none() {
                    return Err(Failure::new("derive: keys() lists a key that get()/contains_key() deny", format!("path={path}.{k}")));
                }
            }
        }
        if let (Some(x), Some(y)) = (a.as_array(), b.as_array()) {
            for (i, (va, vb)) in x.values().zip(y.values()).enumerate() {
                walk(&format!("{path}[{i}]"), va, vb)?;
            }
        }
        Ok(())
    }
    walk("g", &g, &via_serde)?;
    // the views agree structurally too, and serde gives the struct back
    let dv = from_view(&n.clone());
    let sv = from_view(&liquid::model::to_value(n).map_err(|e| Failure::new("derive: to_value fails", e.to_string()))?);
    if dv != sv {
        return Err(Failure::new("derive: ValueView of the struct and its serde conversion differ structurally", format!("derive={} serde={}", dv.dump(), sv.dump())));
    }
    let back: Result<Nested, _> = liquid::model::from_value(&liquid::model::to_value(n).unwrap());
    match back {
        Ok(b) if b == *n => Ok(()),
        other => Err(Failure::new("derive: struct -> Value -> struct is not the identity", format!("{n:?} -> {other:?}"))),
    }
}

fn serde_only() -> BoxedStrategy<SerdeOnly> {
    let shape = prop_oneof![Just(Shape::Unit), (-5i64..5).prop_map(Shape::Newtype), (-5i64..5, text()).prop_map(|(a, b)| Shape::Tuple(a, b)), (-5i64..5, proptest::option::of(any::<bool>())).prop_map(|(a, b)| Shape::Struct { a, b })];
    (shape, (-5i64..5, any::<bool>(), text()), -5i64..5, proptest::option::of(proptest::option::of(-5i64..5)), proptest::collection::vec(any::<u8>(), 0..4), proptest::char::range('a', 'z'), proptest::sample::select(vec![0.5f32, 1.0, -2.25]), any::<u32>())
        .prop_map(|(shape, tuple, nt, nested_opt, bytes, ch, float32, unsigned)| SerdeOnly { shape, tuple, newtype: Wrapper(nt), unit: (), nested_opt, bytes, ch, float32, unsigned })
        .boxed()
}

fn serde_only_oracle(s: &SerdeOnly, obs: &mut Obs) -> Check {
    obs.nt(&format!("{s:?}"));
    let v = match guard(|| liquid::model::to_value(s)) {
        Err(p) => return Err(Failure::new(format!("serde: to_value panics: {}", p.site()), p.what)),
        Ok(Err(e)) => return Err(Failure::new("serde: to_value of plain data fails", format!("{s:?} {e}"))),
        Ok(Ok(v)) => v,
    };
    // the same data through serde_json must have the same structure
    let j = serde_json::to_value(s).map_err(|e| Failure::new("serde: harness", e.to_string()))?;
    let via_json: Value = serde_json::from_value(j.clone()).map_err(|e| Failure::new("serde: a JSON document does not convert to a Liquid value", format!("{j} {e}")))?;
    let (a, b) = (from_view(&v), from_view(&via_json));
    // f32 widening and Option<Option<>> flattening are the only representational freedoms
    if a.dump().replace("f:", "") != b.dump().replace("f:", "").replace("i:", "i:") && a != b {
        let strip = |r: &RV| r.dump();
        if strip(&a) != strip(&b) {
            return Err(Failure::new("serde: Rust data -> Liquid value differs from the same data via JSON", format!("{s:?}\n direct={}\n json  ={}", a.dump(), b.dump())));
        }
    }
    // to_object agrees with to_value whenever the datum is an object (enum variants with payloads)
    for shape in [&s.shape] {
        let as_value = liquid::model::to_value(shape).map_err(|e| Failure::new("serde: to_value of an enum fails", format!("{shape:?} {e}")))?;
        match (&as_value, guard(|| liquid::to_object(shape))) {
            (_, Err(p)) => return Err(Failure::new(format!("serde: to_object panics: {}", p.site()), p.what)),
            (Value::Object(o), Ok(Ok(o2))) if from_view(o) == from_view(&o2) => {}
            (Value::Object(o), Ok(other)) => return Err(Failure::new("serde: to_object disagrees with to_value on data that is an object", format!("{shape:?} to_value={} to_object={:?}", from_view(o).dump(), other.map(|o| from_view(&o).dump())))),
            (_, Ok(Ok(o2))) => return Err(Failure::new("serde: to_object accepts data that to_value does not see as an object", format!("{shape:?} -> {}", from_view(&o2).dump()))),
            (_, Ok(Err(_))) => {}
        }
    }
    let mut expect = s.clone();
    if expect.nested_opt == Some(None) {
        expect.nested_opt = None; // Some(None) and None are both nil
    }
    // enums serialise (unit variant -> its name, others -> a one-key object) but the crate's
    // deserialiser declines enums with a clean error: the way back is checked without the enum
    #[derive(Serialize, Deserialize, Debug, Clone, PartialEq)]
    struct NoEnum {
        tuple: (i64, bool, String),
        newtype: Wrapper,
        unit: (),
        nested_opt: Option<Option<i64>>,
        bytes: Vec<u8>,
        ch: char,
        float32: f32,
        unsigned: u32,
    }
    let want = NoEnum { tuple: expect.tuple.clone(), newtype: expect.newtype.clone(), unit: (), nested_opt: expect.nested_opt, bytes: expect.bytes.clone(), ch: expect.ch, float32: expect.float32, unsigned: expect.unsigned };
    let back: Result<NoEnum, _> = liquid::model::from_value(&v);
    match back {
        Ok(b) if b == want => Ok(()),
        other => Err(Failure::new("serde: data -> Value -> data is not the identity", format!("{s:?} -> {other:?}"))),
    }
}

// ------------------------------------------------------------------------------------------
// (c) integers across the 64-bit boundaries

#[derive(Clone, Debug, Serialize, Deserialize)]
pub struct BigInt {
    /// decimal text of an integer, possibly outside i64
    pub text: String,
    pub route: u8,
}

fn bigint_oracle(c: &BigInt, obs: &mut Obs) -> Check {
    let n: i128 = c.text.parse().map_err(|_| Failure::new("harness", "bad integer text"))?;
    let fits = n >= i64::MIN as i128 && n <= i64::MAX as i128;
    if !fits || n.unsigned_abs() >= 1 << 62 {
        obs.nt(&(c.text.as_str(), c.route));
    }
    let r: Result<Result<Value, String>, crate::engine::Panicked> = match c.route {
        0 => match u64::try_from(n) {
            Ok(u) => guard(|| liquid::model::to_value(&u).map_err(|e| e.to_string())),
            Err(_) => return Ok(()),
        },
        1 => guard(|| serde_json::from_str::<Value>(&c.text).map_err(|e| e.to_string())),
        2 => guard(|| serde_yaml::from_str::<Value>(&c.text).map_err(|e| e.to_string())),
        3 => guard(|| liquid::model::to_value(&n).map_err(|e| e.to_string())),
        4 => guard(|| serde_json::from_str::<liquid::Object>(&format!("{{\"n\": {}}}", c.text)).map(|o| o.get("n").cloned().unwrap_or(Value::Nil)).map_err(|e| e.to_string())),
        5 => match u64::try_from(n) {
            Ok(u) => guard(|| {
                #[derive(Serialize)]
                struct S {
                    n: u64,
                }
                liquid::to_object(&S { n: u }).map(|o| o.get("n").cloned().unwrap_or(Value::Nil)).map_err(|e| e.to_string())
            }),
            Err(_) => return Ok(()),
        },
        _ => {
            // integer map keys become the decimal string of the key
            let keys = |o: liquid::Object| o.keys().map(|k| k.to_string()).collect::<Vec<_>>();
            let got: Result<Result<Vec<String>, String>, crate::engine::Panicked> = if let Ok(u) = u64::try_from(n) {
                guard(|| liquid::to_object(&BTreeMap::from([(u, 1i64)])).map(keys).map_err(|e| e.to_string()))
            } else if let Ok(i) = i64::try_from(n) {
                guard(|| liquid::to_object(&BTreeMap::from([(i, 1i64)])).map(keys).map_err(|e| e.to_string()))
            } else {
                return Ok(());
            };
            return match got {
                Err(p) => Err(Failure::new(format!("integers: conversion panics: {}", p.site()), format!("map key {} {}", c.text, p.what))),
                Ok(Err(_)) => Ok(()),
                Ok(Ok(k)) if k == vec![c.text.clone()] => Ok(()),
                Ok(Ok(k)) => Err(Failure::new("integers: an integer map key was turned into a different number", format!("key={} became {k:?}", c.text))),
            };
        }
    };
    match r {
        Err(p) => Err(Failure::new(format!("integers: conversion panics: {}", p.site()), format!("{} {}", c.text, p.what))),
        Ok(Err(_)) => {
            if fits && c.route != 3 {
                Err(Failure::new("integers: an integer inside the signed 64-bit range is rejected", format!("text={} route={}", c.text, c.route)))
            } else {
                obs.class("rejected");
                Ok(())
            }
        }
        Ok(Ok(v)) => {
            let rv = from_view(&v);
            match rv {
                RV::Int(i) if i as i128 == n => Ok(()),
                RV::Float(f) if !fits && ((f.0 - n as f64) / (n as f64)).abs() <= 2f64.powi(-52) => {
                    obs.class("carried_as_float");
                    Ok(())
                }
                other => Err(Failure::new("integers: an integer was turned into a different number", format!("text={} route={} became {}", c.text, c.route, other.dump()))),
            }
        }
    }
}

fn bigints() -> Vec<BigInt> {
    let mut v = Vec::new();
    let marks: [i128; 8] = [i64::MAX as i128, i64::MIN as i128, u64::MAX as i128, 1 << 63, 1 << 62, 1 << 53, 0, 1 << 64];
    for m in marks {
        for d in -3i128..=3 {
            for route in 0..7u8 {
                v.push(BigInt { text: (m + d).to_string(), route });
            }
        }
    }
    v
}

/// The way back: a Liquid integer moved through serde into every Rust integer type is either
/// rejected or the same number, never a different one (wrapped or truncated).
#[derive(Clone, Debug, Serialize, Deserialize)]
pub struct BackCase {
    pub n: i64,
}

fn back_oracle(c: &BackCase, obs: &mut Obs) -> Check {
    if c.n < 0 || c.n > i32::MAX as i64 {
        obs.nt(&c.n);
    }
    let v = Value::scalar(c.n);
    macro_rules! target {
        ($t:ty) => {{
            #[derive(Deserialize)]
            struct S {
                #[allow(dead_code)]
                f: $t,
            }
            let direct = guard(|| liquid::model::from_value::<$t>(&v).map(|x| x as i128).map_err(|e| e.to_string()));
            let mut o = liquid::Object::new();
            o.insert("f".into(), v.clone());
            let field = guard(|| liquid::model::from_value::<S>(&Value::Object(o.clone())).map(|s| s.f as i128).map_err(|e| e.to_string()));
            for (how, r) in [("bare", direct), ("struct field", field)] {
                match r {
                    Err(p) => return Err(Failure::new(format!("integers: from_value panics: {}", p.site()), format!("{} -> {} ({how}) {}", c.n, stringify!($t), p.what))),
                    Ok(Err(_)) => {
                        if <$t>::try_from(c.n).is_ok() {
                            return Err(Failure::new("integers: an integer that fits the target type is rejected on the way back", format!("{} -> {} ({how})", c.n, stringify!($t))));
                        }
                    }
                    Ok(Ok(x)) if x == c.n as i128 => {}
                    Ok(Ok(x)) => return Err(Failure::new("integers: an integer was turned into a different integer on the way back", format!("{} -> {} ({how}) became {x}", c.n, stringify!($t)))),
                }
            }
        }};
    }
    target!(u8);
    target!(u16);
    target!(u32);
    target!(u64);
    target!(usize);
    target!(i8);
    target!(i16);
    target!(i32);
    target!(i64);
    target!(isize);
    Ok(())
}

pub fn run(ctx: &Ctx) {
    ctx.set_rule("E1: (a) recursive values (depth <= 4; every scalar kind incl. dates and date-times with sub-seconds and offsets; arrays; objects of 0..6 keys) observed through &v, ValueCow::Owned/Borrowed, to_value(), as_view(), Some(v), serde to_value / from_value::<Value> / from_value::<serde_json::Value> (kind), JSON and YAML text round trips: identical type_name, truthy/default/empty/blank, is_*, scalar conversions, structure, and (single-key containers) to_kstr/render/source; (b) a family of structs with derive(Serialize, Deserialize, ObjectView, ValueView) (every field type, Option, Vec, nested struct, Vec of structs, BTreeMap/HashMap, zero-field struct, fields named size/first) rendered through ~150 probes per instance (output, if, size, == empty/blank/nil, default, for, contains, map/where/sort/join) once exposed through the derive and once through to_object; plus serde-only enums/tuples/newtypes round-tripped; (c) E2: integers within +-3 of i64::MIN/MAX, u64::MAX, 2^63, 2^64, 2^62, 2^53, 0 through seven routes (u64, i128, JSON text, YAML text, JSON object, struct field, integer map key), and back: every integer within +-2 of +-2^7 .. 2^62 and of the i64 limits through from_value into each of the 10 Rust integer types up to 64 bits, bare and as a struct field (rejected or the same number). Non-trivial = datum holds a container, a date, an Option or a boundary integer; distinct by datum.");
    ctx.assume("string leaves never spell one of the crate's date formats (serde maps those to dates by design); State markers and NaN are not data");
    ctx.cases("integers", bigints(), bigint_oracle);
    {
        let mut v: Vec<i64> = vec![0, 1, -1, i64::MIN, i64::MIN + 1, i64::MAX, i64::MAX - 1];
        for b in [7u32, 8, 15, 16, 31, 32, 53, 62] {
            for d in -2i64..=2 {
                v.push((1i64 << b) + d);
                v.push(-(1i64 << b) + d);
            }
        }
        ctx.cases("integers_back", v.into_iter().map(|n| BackCase { n }).collect(), back_oracle);
        ctx.random("integers_back_random", ctx.pick(50_000, 2_000_000), || any::<i64>().prop_map(|n| BackCase { n }), back_oracle);
    }
    ctx.random("integers_random", ctx.pick(20_000, 2_000_000), || {
        (prop_oneof![any::<i64>().prop_map(|x| x as i128), any::<u64>().prop_map(|x| x as i128), any::<i64>().prop_map(|x| x as i128 * 3)], 0u8..7).prop_map(|(n, route)| BigInt { text: n.to_string(), route })
    }, bigint_oracle);
    ctx.random("value_views", ctx.pick(150_000, 10_000_000), datum, views_oracle);
    ctx.random("derive_vs_serde", ctx.pick(25_000, 2_000_000), nested, derive_oracle);
    ctx.random("serde_only_shapes", ctx.pick(20_000, 2_000_000), serde_only, serde_only_oracle);
}
