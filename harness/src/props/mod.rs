use crate::engine::Ctx;

pub mod c01;
pub mod c02;
pub mod c03;
pub mod c04;
pub mod c05;
pub mod c06;
pub mod c07;
pub mod c08;
pub mod c09;
pub mod c10;
pub mod c11;
pub mod c12;
pub mod c13;
pub mod c14;
pub mod c15;
pub mod c16;
pub mod c17;
pub mod c18;
pub mod c19;
pub mod c20;

pub type RunFn = fn(&Ctx);

pub const ALL: &[(&str, RunFn)] = &[
    ("C01", c01::run),
    ("C02", c02::run),
    ("C03", c03::run),
    ("C04", c04::run),
    ("C05", c05::run),
    ("C06", c06::run),
    ("C07", c07::run),
    ("C08", c08::run),
    ("C09", c09::run),
    ("C10", c10::run),
    ("C11", c11::run),
    ("C12", c12::run),
    ("C13", c13::run),
    ("C14", c14::run),
    ("C15", c15::run),
    ("C16", c16::run),
    ("C17", c17::run),
    ("C18", c18::run),
    ("C19", c19::run),
    ("C20", c20::run),
];
