//! C15 — arithmetic filters are exact or fail; they never wrap or crash.

use crate::engine::{decode, Check, Ctx, Failure, Obs};
use crate::lq::{self, Conf};
use crate::rv::{fl, st, F, RV};
use proptest::prelude::*;
use serde::{Deserialize, Serialize};
use serde_json::json;

pub const BINARY: [&str; 7] = ["plus", "minus", "times", "divided_by", "modulo", "at_least", "at_most"];
pub const UNARY: [&str; 4] = ["abs", "ceil", "floor", "round"];

#[derive(Clone, Debug, Serialize, Deserialize)]
pub struct Case {
    pub op: String,
    pub a: RV,
    pub b: Option<RV>,
}

fn grid() -> Vec<i64> {
    vec![0, 1, -1, 2, -2, 3, -3, 7, -7, 10, 1 << 31, -(1 << 31), 1 << 62, -(1 << 62), i64::MAX - 1, i64::MAX, i64::MIN, i64::MIN + 1]
}

/// three spellings of an integer grid value: 0 = integer, 1 = numeric string, 2 = float
fn spell(v: i64, how: u64) -> RV {
    match how {
        0 => RV::Int(v),
        1 => st(&v.to_string()),
        _ => fl(v as f64),
    }
}

#[derive(Clone, Copy, Debug, PartialEq)]
enum Num {
    I(i64),
    F(f64),
}

fn classify(v: &RV) -> Option<Num> {
    match v {
        RV::Int(i) => Some(Num::I(*i)),
        RV::Float(f) => Some(Num::F(f.0)),
        RV::Str(s) => {
            if let Ok(i) = s.parse::<i64>() {
                Some(Num::I(i))
            } else {
                s.parse::<f64>().ok().map(Num::F)
            }
        }
        _ => None,
    }
}

fn as_f(n: Num) -> f64 {
    match n {
        Num::I(i) => i as f64,
        Num::F(f) => f,
    }
}

fn same_float(x: f64, y: f64) -> bool {
    x.to_bits() == y.to_bits() || (x == 0.0 && y == 0.0) || (x.is_nan() && y.is_nan())
}

/// Is `got` an exact representation of the integer `exact`?
fn is_exact(got: &RV, exact: i128) -> bool {
    match got {
        RV::Int(i) => *i as i128 == exact,
        RV::Float(f) => f.0.fract() == 0.0 && f.0.abs() < 9.0e18 && (f.0 as i128) == exact && (exact as f64) == f.0 && (exact.abs() as u128) <= (1u128 << 53),
        _ => false,
    }
}

/// Overflow case: error, or "continues in floating point": a float within a few ulp of the exact
/// result (converting both operands and the operation each round once: 4 * 2^-53 relative).
fn ok_overflow(got: &lq::R<RV>, exact: i128) -> bool {
    match got {
        Ok(Err(_)) => true,
        Ok(Ok(RV::Float(f))) => {
            let e = exact as f64;
            ((f.0 - e) / e).abs() <= 2.0f64.powi(-51)
        }
        _ => false,
    }
}

fn fail(sig: &str, c: &Case, got: &lq::R<RV>, expected: String) -> Check {
    Err(Failure::new(format!("{}: {sig}", c.op), format!("a={} b={} expected {expected} got {}", c.a.dump(), c.b.as_ref().map(|b| b.dump()).unwrap_or_default(), show(got))))
}

fn show(r: &lq::R<RV>) -> String {
    match r {
        Ok(Ok(v)) => format!("Ok({})", v.dump()),
        Ok(Err(e)) => format!("Err({:?})", e.lines().next().unwrap_or("")),
        Err(p) => format!("PANIC({})", p.what),
    }
}

fn call(op: &str, a: &RV, b: Option<&RV>) -> lq::R<RV> {
    match b {
        Some(b) => lq::apply(Conf::Stdlib, op, a, std::slice::from_ref(b)),
        None => lq::apply(Conf::Stdlib, op, a, &[]),
    }
}

pub fn oracle(c: &Case, obs: &mut Obs) -> Check {
    // self-test hooks of the supervisor (never set by a registered command)
    if c.op == "plus" && c.a == RV::Int(7) && c.b == Some(RV::Int(3)) {
        if std::env::var("VERIF_TEST_HANG").is_ok() {
            loop {
                std::thread::sleep(std::time::Duration::from_secs(1));
            }
        }
        if std::env::var("VERIF_TEST_ABORT").is_ok() {
            std::process::abort();
        }
    }
    let a = classify(&c.a);
    let b = c.b.as_ref().and_then(classify);
    let got = call(&c.op, &c.a, c.b.as_ref());
    obs.sample_with(|| json!({"op": c.op, "a": c.a.dump(), "b": c.b.as_ref().map(|b| b.dump()), "got": show(&got)}));
    if let Err(p) = &got {
        return Err(Failure::new(format!("{}: panics: {}", c.op, p.site()), format!("a={} b={:?} {}", c.a.dump(), c.b.as_ref().map(|b| b.dump()), p.what)));
    }
    let boundary = |n: &Option<Num>| matches!(n, Some(Num::I(i)) if i.unsigned_abs() >= 1 << 62) || matches!(n, Some(Num::F(f)) if f.abs() >= 4.6e18);
    let mixed = matches!((a, b), (Some(Num::I(_)), Some(Num::F(_))) | (Some(Num::F(_)), Some(Num::I(_)))) || matches!(c.a, RV::Str(_)) || matches!(c.b, Some(RV::Str(_)));
    if boundary(&a) || boundary(&b) || mixed {
        obs.nt(&(c.op.as_str(), c.a.dump(), c.b.as_ref().map(|x| x.dump())));
    }
    let Some(a) = a else { return Ok(()) };
    match c.op.as_str() {
        "plus" | "minus" | "times" | "at_least" | "at_most" => {
            let Some(b) = b else { return Ok(()) };
            match (a, b) {
                (Num::I(x), Num::I(y)) => {
                    let (x, y) = (x as i128, y as i128);
                    let exact = match c.op.as_str() {
                        "plus" => x + y,
                        "minus" => x - y,
                        "times" => x * y,
                        "at_least" => x.max(y),
                        _ => x.min(y),
                    };
                    if exact >= i64::MIN as i128 && exact <= i64::MAX as i128 {
                        obs.class("int_exact");
                        match &got {
                            Ok(Ok(v)) if is_exact(v, exact) => Ok(()),
                            _ => fail("integer result is not the mathematical result", c, &got, exact.to_string()),
                        }
                    } else {
                        obs.class("int_overflow");
                        if ok_overflow(&got, exact) {
                            Ok(())
                        } else {
                            fail("integer overflow neither fails nor continues in floating point", c, &got, format!("Err or float ~{exact}"))
                        }
                    }
                }
                _ => {
                    let (x, y) = (as_f(a), as_f(b));
                    let e = match c.op.as_str() {
                        "plus" => x + y,
                        "minus" => x - y,
                        "times" => x * y,
                        "at_least" => x.max(y),
                        _ => x.min(y),
                    };
                    obs.class("float");
                    match &got {
                        Ok(Ok(RV::Float(f))) if same_float(f.0, e) => Ok(()),
                        _ => fail("float result is not the IEEE result", c, &got, format!("{e:?}")),
                    }
                }
            }
        }
        "divided_by" | "modulo" => {
            let Some(b) = b else { return Ok(()) };
            match (a, b) {
                (Num::I(_), Num::I(0)) | (Num::F(_), Num::I(0)) => match &got {
                    Ok(Err(_)) => Ok(()),
                    _ => fail("division by zero is not an error", c, &got, "Err".into()),
                },
                (_, Num::F(z)) if z == 0.0 => match &got {
                    Ok(Err(_)) => Ok(()),
                    _ => fail("division by zero is not an error", c, &got, "Err".into()),
                },
                (Num::I(x), Num::I(y)) => {
                    obs.class("int_division");
                    // check q and r jointly
                    let q = call("divided_by", &c.a, c.b.as_ref());
                    let r = call("modulo", &c.a, c.b.as_ref());
                    obs.extra_evals += 1;
                    if x == i64::MIN && y == -1 {
                        let q_ok = ok_overflow(&q, -(i64::MIN as i128));
                        let r_ok = matches!(&r, Ok(Ok(v)) if is_exact(v, 0) || matches!(v, RV::Float(f) if f.0 == 0.0));
                        return if q_ok && r_ok { Ok(()) } else { fail("MIN / -1 or MIN % -1 mishandled", c, &got, format!("q Err/float, r 0; q={} r={}", show(&q), show(&r))) };
                    }
                    let (qi, ri) = match (&q, &r) {
                        (Ok(Ok(RV::Int(q))), Ok(Ok(RV::Int(r)))) => (*q as i128, *r as i128),
                        _ => return fail("integer quotient/remainder are not integers", c, &got, format!("ints; q={} r={}", show(&q), show(&r))),
                    };
                    let (x, y) = (x as i128, y as i128);
                    if x == qi * y + ri && ri.abs() < y.abs() {
                        Ok(())
                    } else {
                        fail("dividend != quotient*divisor + remainder or |remainder| >= |divisor|", c, &got, format!("q={qi} r={ri}"))
                    }
                }
                _ => {
                    let (x, y) = (as_f(a), as_f(b));
                    obs.class("float");
                    let ok = match (&got, c.op.as_str()) {
                        (Ok(Ok(RV::Float(f))), "divided_by") => same_float(f.0, x / y),
                        (Ok(Ok(RV::Float(f))), _) => same_float(f.0, x % y) || same_float(f.0, x - y * (x / y).floor()) || same_float(f.0, x.rem_euclid(y)),
                        _ => false,
                    };
                    if ok {
                        Ok(())
                    } else {
                        fail("float result is not the IEEE result", c, &got, format!("{:?}", if c.op == "modulo" { x % y } else { x / y }))
                    }
                }
            }
        }
        "abs" => match a {
            Num::I(x) => {
                let exact = (x as i128).abs();
                if exact <= i64::MAX as i128 {
                    match &got {
                        Ok(Ok(v)) if is_exact(v, exact) => Ok(()),
                        _ => fail("integer result is not the mathematical result", c, &got, exact.to_string()),
                    }
                } else if ok_overflow(&got, exact) {
                    Ok(())
                } else {
                    fail("integer overflow neither fails nor continues in floating point", c, &got, format!("Err or float ~{exact}"))
                }
            }
            Num::F(x) => match &got {
                Ok(Ok(RV::Float(f))) if same_float(f.0, x.abs()) => Ok(()),
                _ => fail("float result is not the IEEE result", c, &got, format!("{:?}", x.abs())),
            },
        },
        "ceil" | "floor" | "round" => {
            let places = c.b.as_ref().and_then(classify);
            match (a, places) {
                (Num::F(x), None) | (Num::F(x), Some(Num::I(0))) if x.abs() < 9.2e18 && x.is_finite() => {
                    let e = match c.op.as_str() {
                        "ceil" => x.ceil(),
                        "floor" => x.floor(),
                        _ => x.round(),
                    };
                    if (x - x.trunc()).abs() == 0.5 {
                        obs.nt(&("tie", c.op.as_str(), x.to_bits()));
                        obs.class("tie");
                    }
                    let exact = e as i128;
                    match &got {
                        Ok(Ok(RV::Int(i))) if *i as i128 == exact => Ok(()),
                        Ok(Ok(RV::Float(f))) if f.0 == e => Ok(()),
                        _ => fail("not the neighbouring integer in the documented direction", c, &got, exact.to_string()),
                    }
                }
                (Num::I(x), None) if x.unsigned_abs() <= 1 << 53 => match &got {
                    Ok(Ok(v)) if is_exact(v, x as i128) => Ok(()),
                    _ => fail("rounding an integer changes it", c, &got, x.to_string()),
                },
                (Num::F(x), Some(Num::I(n))) if c.op == "round" && (1..=6).contains(&n) && x.abs() < 1e9 => {
                    let tol = 0.5 * 10f64.powi(-(n as i32)) * (1.0 + 2f64.powi(-40)) + x.abs() * 2f64.powi(-50);
                    match &got {
                        Ok(Ok(RV::Float(f))) if (f.0 - x).abs() <= tol => Ok(()),
                        Ok(Ok(RV::Int(i))) if ((*i as f64) - x).abs() <= tol => Ok(()),
                        _ => fail("round with places is off by more than half a unit", c, &got, format!("within {tol:e} of {x:?}")),
                    }
                }
                _ => Ok(()),
            }
        }
        _ => Ok(()),
    }
}

fn grid_nth(i: u64) -> Option<Case> {
    let g = grid();
    let n = g.len() as u64;
    let d = decode(i, &[7, n, 3, n, 3])?;
    Some(Case { op: BINARY[d[0] as usize].to_string(), a: spell(g[d[1] as usize], d[2]), b: Some(spell(g[d[3] as usize], d[4])) })
}

fn unary_nth(i: u64) -> Option<Case> {
    let g = grid();
    let n = g.len() as u64;
    let d = decode(i, &[4, n, 3])?;
    Some(Case { op: UNARY[d[0] as usize].to_string(), a: spell(g[d[1] as usize], d[2]), b: None })
}

/// all k/8 for |k| <= 40, unary rounding filters (spelled as float and as string) and float arithmetic pairs
fn eighths_unary(i: u64) -> Option<Case> {
    let d = decode(i, &[3, 81, 2, 8])?;
    let x = (d[1] as f64 - 40.0) / 8.0;
    let a = if d[2] == 0 { fl(x) } else { st(&format!("{x:?}")) };
    let op = ["ceil", "floor", "round"][d[0] as usize];
    let b = match d[3] {
        0 => None,
        p => {
            if op != "round" {
                return None;
            }
            Some(RV::Int(p as i64 - 1))
        }
    };
    Some(Case { op: op.to_string(), a, b })
}

fn eighths_pairs(i: u64) -> Option<Case> {
    let d = decode(i, &[7, 81, 81])?;
    let x = (d[1] as f64 - 40.0) / 8.0;
    let y = (d[2] as f64 - 40.0) / 8.0;
    Some(Case { op: BINARY[d[0] as usize].to_string(), a: fl(x), b: Some(fl(y)) })
}

fn any_int() -> BoxedStrategy<i64> {
    prop_oneof![
        3 => any::<i64>(),
        2 => (-1000i64..1000),
        2 => (0u32..64, any::<bool>(), -3i64..4).prop_map(|(sh, neg, d)| {
            let base = if sh == 63 { i64::MAX } else { 1i64 << sh };
            let v = base.saturating_add(d);
            if neg { v.checked_neg().unwrap_or(i64::MIN) } else { v }
        }),
        1 => proptest::sample::select(vec![i64::MIN, i64::MIN + 1, i64::MAX, i64::MAX - 1, 0, -1]),
    ]
    .boxed()
}

fn any_num() -> BoxedStrategy<RV> {
    prop_oneof![
        4 => any_int().prop_map(RV::Int),
        2 => any_int().prop_map(|i| st(&i.to_string())),
        3 => any::<f64>().prop_filter("finite", |f| f.is_finite()).prop_map(|f| RV::Float(F(f))),
        2 => (-100_000i64..100_000, 0u32..7).prop_map(|(m, e)| fl(m as f64 / 10f64.powi(e as i32))),
        1 => (-1000i64..1000).prop_map(|k| st(&format!("{:?}", k as f64 / 8.0))),
    ]
    .boxed()
}

fn random_case() -> BoxedStrategy<Case> {
    prop_oneof![
        5 => (proptest::sample::select(BINARY.to_vec()), any_num(), any_num()).prop_map(|(op, a, b)| Case { op: op.to_string(), a, b: Some(b) }),
        2 => (proptest::sample::select(UNARY.to_vec()), any_num()).prop_map(|(op, a)| Case { op: op.to_string(), a, b: None }),
        1 => (any_num(), 0i64..7).prop_map(|(a, p)| Case { op: "round".into(), a, b: Some(RV::Int(p)) }),
    ]
    .boxed()
}

pub fn run(ctx: &Ctx) {
    ctx.set_rule("E2: every pair from the 18-value integer grid (0, +-1, +-2, +-3, +-7, 10, +-2^31, +-2^62, MAX-1, MAX, MIN, MIN+1) spelled as integer / numeric string / float for the 7 binary filters, the grid for the 4 unary ones, all k/8 (|k|<=40) for ceil/floor/round (with 0..6 places) and as float pairs; numeric strings in 13 further spellings (exponents, explicit plus, leading / trailing zeros, 20 digits, subnormal) against 5 operands for every filter; E1: random 64-bit / near-power-of-two integers, finite doubles, decimal strings. Oracle: exact i128 / IEEE f64 reference inside the harness. Non-trivial = a boundary operand (|v| >= 2^62), a .5 tie, a numeric-string operand or an int/float mix; distinct by (filter, operands).");
    ctx.assume("ceil/floor/round of integers beyond 2^53 and of non-finite floats are not asserted (statement claims floats within the 64-bit range)");
    let n = grid().len() as u64;
    ctx.exhaustive("grid_binary", 7 * n * 3 * n * 3, grid_nth, oracle);
    ctx.exhaustive("grid_unary", 4 * n * 3, unary_nth, oracle);
    ctx.exhaustive("eighths_unary", 3 * 81 * 2 * 8, eighths_unary, oracle);
    ctx.exhaustive("eighths_pairs", 7 * 81 * 81, eighths_pairs, oracle);
    // numeric strings in the spellings a decimal parser accepts beyond plain digits: exponents,
    // explicit plus sign, leading zeros, trailing zeros
    let spellings = ["1e3", "2.5e-3", "6.02E23", "-1E2", "1e0", "+5", "+2.5", "007", "1.50", "-0.0", "0e0", "12345678901234567890", "1e-320"];
    let others: Vec<RV> = vec![RV::Int(2), RV::Int(-3), fl(0.5), st("4"), st("1e1")];
    let mut v = Vec::new();
    for s in spellings {
        for op in UNARY {
            v.push(Case { op: op.to_string(), a: st(s), b: None });
        }
        for op in BINARY {
            for o in &others {
                v.push(Case { op: op.to_string(), a: st(s), b: Some(o.clone()) });
                v.push(Case { op: op.to_string(), a: o.clone(), b: Some(st(s)) });
            }
        }
    }
    ctx.cases("numeric_string_spellings", v, oracle);
    ctx.random("random", ctx.pick(1_500_000, 150_000_000), random_case, oracle);
}
