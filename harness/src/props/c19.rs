//! C19 — eager, lazy and on-demand partial compilation are observationally equivalent.

use crate::engine::{Check, Ctx, Failure, Obs};
use crate::interp;
use crate::lq::{self, Policy, POLICIES};
use crate::progs::{PDef, Scenario};
use crate::props::c08;
use proptest::prelude::*;
use serde::{Deserialize, Serialize};
use serde_json::json;

#[derive(Clone, Debug, Serialize, Deserialize)]
pub struct Case {
    pub sc: Scenario,
    /// how many times the main template is rendered per parser (1..3)
    pub renders: u8,
}

const OTHER: &str = "{% assign q = 'other' %}{{ q }}{% for i in (1..2) %}{% cycle 'a', 'b' %}{% endfor %}";

fn key(r: &lq::R<String>) -> Result<String, ()> {
    match r {
        Ok(Ok(s)) => Ok(s.clone()),
        _ => Err(()),
    }
}

/// results of rendering main `renders` times (interleaved with an unrelated template) per policy
fn run_all(sc: &Scenario, renders: u8) -> Result<Vec<Vec<lq::R<String>>>, Failure> {
    let mut out = Vec::new();
    let sources = sc.sources();
    let globals = sc.data.to_object();
    for policy in POLICIES {
        let parser = match lq::parser_with_partials(policy, &sources) {
            Err(p) => return Err(Failure::new(format!("policies: building the parser panics ({policy:?}): {}", p.site()), p.what)),
            Ok(Err(e)) => return Err(Failure::new(format!("policies: building the parser fails because of a partial ({policy:?})"), format!("partials={sources:?} error={e}"))),
            Ok(Ok(p)) => p,
        };
        let main = lq::parse(&parser, &sc.main_src());
        let other = lq::parse(&parser, OTHER);
        let mut rs = Vec::new();
        for _ in 0..renders {
            rs.push(match &main {
                Ok(Ok(t)) => lq::render(t, &globals),
                Ok(Err(e)) => Ok(Err(format!("parse: {e}"))),
                Err(p) => Err(p.clone()),
            });
            if let Ok(Ok(t)) = &other {
                match lq::render(t, &globals) {
                    Ok(Ok(s)) if s == "otherab" => {}
                    o => return Err(Failure::new("policies: an unrelated template is affected by the partials", format!("policy={policy:?} got={}", lq::show(&o)))),
                }
            } else {
                return Err(Failure::new("policies: an unrelated template does not parse", format!("policy={policy:?}")));
            }
        }
        out.push(rs);
    }
    Ok(out)
}

pub fn oracle(c: &Case, obs: &mut Obs) -> Check {
    let sc = &c.sc;
    if !interp::cost_ok(&crate::ast::resolve_trim(&sc.main), &sc.data, &sc.defs()) {
        obs.class("over_budget_skipped");
        return Ok(());
    }
    let bad = sc.partials.iter().any(|(_, d)| !matches!(d, PDef::Ok(_)));
    let (_, stats) = crate::progs::reference_run(sc);
    if bad || stats.partial_calls >= 2 {
        obs.nt(&(sc.main_src(), sc.sources(), sc.data.dump(), c.renders));
    }
    if bad {
        obs.class("has_bad_partial");
    }
    let describe = || format!("main={:?}\n partials={:?}\n data={}", sc.main_src(), sc.sources(), sc.data.dump());
    let all = run_all(sc, c.renders)?;
    obs.extra_evals += (3 * c.renders as u64 * 2).saturating_sub(1);
    for (pi, rs) in all.iter().enumerate() {
        for r in rs {
            if let Err(p) = r {
                return Err(Failure::new(format!("policies: render panics ({:?}): {}", POLICIES[pi], p.site()), format!("{}\n {}", describe(), p.what)));
            }
        }
        // (iv) n-th render equals the first
        for (n, r) in rs.iter().enumerate() {
            if key(r) != key(&rs[0]) {
                return Err(Failure::new(format!("policies: render {} differs from the first render of the same template ({:?})", n + 1, POLICIES[pi]), format!("{}\n first={}\n later={}", describe(), lq::show(&rs[0]), lq::show(r))));
            }
        }
    }
    // (ii) the three policies agree
    let eager = key(&all[0][0]);
    for (pi, rs) in all.iter().enumerate() {
        if key(&rs[0]) != eager {
            return Err(Failure::new(format!("policies: {:?} and Eager disagree", POLICIES[pi]), format!("{}\n eager={}\n {:?}={}", describe(), lq::show(&all[0][0]), POLICIES[pi], lq::show(&rs[0]))));
        }
    }
    // (iii) paths that do not reach a bad partial are unaffected: same scenario with the broken
    // partials removed from the source behaves identically
    if sc.partials.iter().any(|(_, d)| matches!(d, PDef::Broken)) {
        let mut sc2 = sc.clone();
        for (_, d) in sc2.partials.iter_mut() {
            if matches!(d, PDef::Broken) {
                *d = PDef::Missing;
            }
        }
        let all2 = run_all(&sc2, 1)?;
        obs.extra_evals += 6;
        for pi in 0..3 {
            if key(&all2[pi][0]) != eager {
                return Err(Failure::new(
                    "policies: removing a partial that does not parse from the source changes a render",
                    format!("{}\n with broken partial present={}\n with it absent ({:?})={}", describe(), lq::show(&all[0][0]), POLICIES[pi], lq::show(&all2[pi][0])),
                ));
            }
        }
    }
    obs.sample_with(|| json!({"main": sc.main_src(), "partials": sc.sources(), "data": sc.data.dump(), "renders": c.renders, "result": lq::show(&all[0][0])}));
    match eager {
        Ok(_) => obs.class("renders_ok"),
        Err(_) => obs.class("renders_err"),
    }
    Ok(())
}

fn fixed() -> Vec<Case> {
    c08::enumerated_scenarios().into_iter().map(|sc| Case { sc, renders: 2 }).collect()
}

pub fn run(ctx: &Ctx) {
    ctx.set_rule("All scenarios of the C08 generator (a main template and up to three partials that are valid, syntactically broken or absent; literal and dynamic partial names; executed and dead paths; every include/render form) plus the C08 enumerated call-form family; each scenario builds three parsers (eager, lazy, on-demand compilation over the in-memory source) and renders the main template 1..3 times on each, interleaved with an unrelated template. Oracle: build succeeds under every policy; every render has the same Ok/Err status and the same output under the three policies; the n-th render equals the first; replacing a broken partial by an absent one changes nothing; the unrelated template is unaffected. Non-trivial = a broken or absent partial exists, or partials are executed >= 2 times; distinct by scenario.");
    ctx.assume("error message texts are not compared across policies (eager and lazy word 'unknown partial' differently)");
    ctx.cases("call_forms", fixed(), oracle);
    ctx.random("scenarios", ctx.pick(20_000, 500_000), || (c08::scenario(), 1u8..=3).prop_map(|(sc, renders)| Case { sc, renders }), oracle);
}
