//! C19 — eager, lazy and on-demand partial compilation are observationally equivalent.

use crate::engine::{Check, Ctx, Failure, Obs};
use crate::interp;
use crate::lq::{self, Policy, POLICIES};
use crate::progs::{PDef, Scenario};
use crate::props::c08;
use proptest::prelude::*;
use serde::{Deserialize, Serialize};
use serde_json::json;

#[derive(Clone, Debug, Serialize, Deserialize)]
pub struct Case {
    pub sc: Scenario,
    /// how many times the main template is rendered per parser (1..3)
    pub renders: u8,
    /// per partial (by position): 0 = source as printed, 1 = + "\n", 2 = + " \n\n", 3 = "\n" + source,
    /// 4 = the empty source, 5 / 6 = lone braces as text before the first markup, 7 = after the last, 8 / 9 = a source of blanks only (line break; space, U+00A0, tab)
    #[serde(default)]
    pub source_variant: Vec<u8>,
    /// additional literal partial sources (name, source), e.g. `x` next to `x.liquid`
    #[serde(default)]
    pub extra_sources: Vec<(String, String)>,
    /// literal main template source overriding the scenario's (used by the enumerated families)
    #[serde(default)]
    pub main_override: Option<String>,
}

impl Case {
    fn sources(&self) -> Vec<(String, String)> {
        let mut v: Vec<(String, String)> = self
            .sc
            .sources()
            .into_iter()
            .enumerate()
            .map(|(i, (n, s))| {
                let s = match self.source_variant.get(i).copied().unwrap_or(0) {
                    1 => format!("{s}\n"),
                    2 => format!("{s} \n\n"),
                    3 => format!("\n{s}"),
                    4 => String::new(),
                    5 => format!("{{ {s}"),
                    6 => format!("a }} {{ b {s}"),
                    7 => format!("{s} {{ }}"),
                    8 => "\n".to_string(),
                    9 => " \u{a0}\t".to_string(),
                    _ => s,
                };
                (n, s)
            })
            .collect();
        v.extend(self.extra_sources.iter().cloned());
        v
    }
    fn main_src(&self) -> String {
        self.main_override.clone().unwrap_or_else(|| self.sc.main_src())
    }
    /// The scenario as the engine sees it after the literal source variants that REPLACE a
    /// partial's body (empty / blank-only source): the cost estimate must be made for this one (a
    /// partial that no longer breaks a loop or rebinds a variable can turn a tame program into an
    /// explosive one).
    fn effective(&self) -> Scenario {
        let mut sc = self.sc.clone();
        let mut i = 0;
        for (_, d) in sc.partials.iter_mut() {
            if matches!(d, PDef::Missing) {
                continue;
            }
            match self.source_variant.get(i).copied().unwrap_or(0) {
                4 => *d = PDef::Ok(vec![]),
                8 => *d = PDef::Ok(vec![crate::ast::Node::Text("\n".into())]),
                9 => *d = PDef::Ok(vec![crate::ast::Node::Text(" \u{a0}\t".into())]),
                _ => {}
            }
            i += 1;
        }
        sc
    }
}

const OTHER: &str = "{% assign q = 'other' %}{{ q }}{% for i in (1..2) %}{% cycle 'a', 'b' %}{% endfor %}";

fn key(r: &lq::R<String>) -> Result<String, ()> {
    match r {
        Ok(Ok(s)) => Ok(s.clone()),
        _ => Err(()),
    }
}

/// results of rendering main `renders` times (interleaved with an unrelated template) per policy
fn run_all(c: &Case, sources: &[(String, String)], renders: u8) -> Result<Vec<Vec<lq::R<String>>>, Failure> {
    let mut out = Vec::new();
    let sc = &c.sc;
    let globals = sc.data.to_object();
    let main_src = c.main_src();
    for policy in POLICIES {
        let parser = match lq::parser_with_partials(policy, sources) {
            Err(p) => return Err(Failure::new(format!("policies: building the parser panics ({policy:?}): {}", p.site()), p.what)),
            Ok(Err(e)) => return Err(Failure::new(format!("policies: building the parser fails because of a partial ({policy:?})"), format!("partials={sources:?} error={e}"))),
            Ok(Ok(p)) => p,
        };
        let main = lq::parse(&parser, &main_src);
        let other = lq::parse(&parser, OTHER);
        let mut rs = Vec::new();
        for _ in 0..renders {
            rs.push(match &main {
                Ok(Ok(t)) => lq::render(t, &globals),
                Ok(Err(e)) => Ok(Err(format!("parse: {e}"))),
                Err(p) => Err(p.clone()),
            });
            if let Ok(Ok(t)) = &other {
                match lq::render(t, &globals) {
                    Ok(Ok(s)) if s == "otherab" => {}
                    o => return Err(Failure::new("policies: an unrelated template is affected by the partials", format!("policy={policy:?} got={}", lq::show(&o)))),
                }
            } else {
                return Err(Failure::new("policies: an unrelated template does not parse", format!("policy={policy:?}")));
            }
        }
        out.push(rs);
    }
    Ok(out)
}

pub fn oracle(c: &Case, obs: &mut Obs) -> Check {
    let sc = &c.sc;
    let eff = c.effective();
    if !interp::cost_ok(&crate::ast::resolve_trim(&sc.main), &sc.data, &sc.defs()) || !interp::cost_ok(&crate::ast::resolve_trim(&eff.main), &eff.data, &eff.defs()) {
        obs.class("over_budget_skipped");
        return Ok(());
    }
    let bad = sc.partials.iter().any(|(_, d)| !matches!(d, PDef::Ok(_)));
    let (_, stats) = crate::progs::reference_run(sc);
    if bad || stats.partial_calls >= 2 || !c.extra_sources.is_empty() || c.source_variant.iter().any(|v| *v != 0) {
        obs.nt(&(c.main_src(), c.sources(), sc.data.dump(), c.renders));
    }
    if bad {
        obs.class("has_bad_partial");
    }
    let sources = c.sources();
    let describe = || format!("main={:?}\n partials={:?}\n data={}", c.main_src(), sources, sc.data.dump());
    if !c.source_variant.is_empty() || !c.extra_sources.is_empty() {
        obs.class("source_variants");
    }
    let all = run_all(c, &sources, c.renders)?;
    obs.extra_evals += (3 * c.renders as u64 * 2).saturating_sub(1);
    for (pi, rs) in all.iter().enumerate() {
        for r in rs {
            if let Err(p) = r {
                return Err(Failure::new(format!("policies: render panics ({:?}): {}", POLICIES[pi], p.site()), format!("{}\n {}", describe(), p.what)));
            }
        }
        // (iv) n-th render equals the first (an error is the same error: same text)
        for (n, r) in rs.iter().enumerate() {
            let same_text = match (r, &rs[0]) {
                (Ok(Err(a)), Ok(Err(b))) => a == b,
                _ => true,
            };
            if key(r) != key(&rs[0]) || !same_text {
                return Err(Failure::new(format!("policies: render {} differs from the first render of the same template ({:?})", n + 1, POLICIES[pi]), format!("{}\n first={}\n later={}", describe(), lq::show(&rs[0]), lq::show(r))));
            }
        }
    }
    // (ii) the three policies agree
    let eager = key(&all[0][0]);
    for (pi, rs) in all.iter().enumerate() {
        if key(&rs[0]) != eager {
            return Err(Failure::new(format!("policies: {:?} and Eager disagree", POLICIES[pi]), format!("{}\n eager={}\n {:?}={}", describe(), lq::show(&all[0][0]), POLICIES[pi], lq::show(&rs[0]))));
        }
    }
    // the enumerated literal-name families have a closed-form expected output
    if let Some(want) = expected_literal(c) {
        obs.class("closed_form_expected");
        if eager != want {
            return Err(Failure::new("policies: a literal partial name does not resolve to the source registered under that name", format!("{}
 expected={want:?}
 got={}", describe(), lq::show(&all[0][0]))));
        }
    }
    // (iii) paths that do not reach a bad partial are unaffected: same scenario with the broken
    // partials removed from the source behaves identically
    if sc.partials.iter().any(|(_, d)| matches!(d, PDef::Broken)) {
        let sources2: Vec<(String, String)> = sources.iter().filter(|(_, s)| !s.starts_with(crate::progs::BROKEN_SRC)).cloned().collect();
        let all2 = run_all(c, &sources2, 1)?;
        obs.extra_evals += 6;
        for pi in 0..3 {
            if key(&all2[pi][0]) != eager {
                return Err(Failure::new(
                    "policies: removing a partial that does not parse from the source changes a render",
                    format!("{}\n with broken partial present={}\n with it absent ({:?})={}", describe(), lq::show(&all[0][0]), POLICIES[pi], lq::show(&all2[pi][0])),
                ));
            }
        }
    }
    obs.sample_with(|| json!({"main": c.main_src(), "partials": sources, "data": sc.data.dump(), "renders": c.renders, "result": lq::show(&all[0][0])}));
    match eager {
        Ok(_) => obs.class("renders_ok"),
        Err(_) => obs.class("renders_err"),
    }
    Ok(())
}

fn fixed() -> Vec<Case> {
    let mut v = Vec::new();
    for sc in c08::enumerated_scenarios() {
        for variant in 0u8..10 {
            v.push(Case { sc: sc.clone(), renders: 2, source_variant: vec![variant; 3], extra_sources: vec![], main_override: None });
        }
    }
    v
}

/// Names with and without the `.liquid` suffix the render tag falls back to: every sequence of
/// 1..3 calls over {include x, render x, include x.liquid, render x.liquid} x which of the two
/// sources exist x trailing-newline variants.
fn dot_liquid() -> Vec<Case> {
    let calls = ["{% include 'x' k: 1 %}", "{% render 'x', k: 1 %}", "{% include 'x.liquid' k: 1 %}", "{% render 'x.liquid', k: 1 %}"];
    let empty = Scenario { main: vec![], partials: vec![], data: crate::rv::obj(vec![]) };
    let mut v = Vec::new();
    for presence in 1u8..4 {
        for nl in [false, true] {
            let tail = if nl { "\n" } else { "" };
            let mut extra = Vec::new();
            if presence & 1 != 0 {
                extra.push(("x".to_string(), format!("[plain {{{{ k }}}}]{tail}")));
            }
            if presence & 2 != 0 {
                extra.push(("x.liquid".to_string(), format!("[ext {{{{ k }}}}]{tail}")));
            }
            for len in 1..=3usize {
                for code in 0..4usize.pow(len as u32) {
                    let main: String = (0..len).map(|j| format!("<{}>", calls[code / 4usize.pow(j as u32) % 4])).collect();
                    v.push(Case { sc: empty.clone(), renders: 2, source_variant: vec![], extra_sources: extra.clone(), main_override: Some(main) });
                }
            }
        }
    }
    v
}

/// Name shapes a source may be asked for: mixed-case sets (stores that sort or search names must
/// use one order) and path-like names (`./x`, `dir/x`, `X` next to `x`): which names exist x every
/// sequence of 1..2 calls.
fn name_shapes() -> Vec<Case> {
    let empty = Scenario { main: vec![], partials: vec![], data: crate::rv::obj(vec![]) };
    let mut v = Vec::new();
    let mixed = ["Zeta", "alpha", "Beta", "gamma", "B", "a"];
    for set in 1u32..(1 << mixed.len()) {
        let present: Vec<&str> = mixed.iter().enumerate().filter(|(i, _)| set >> i & 1 == 1).map(|(_, n)| *n).collect();
        let extra: Vec<(String, String)> = present.iter().map(|n| (n.to_string(), format!("[{n} {{{{ k }}}}]"))).collect();
        for form in 0..2 {
            let main: String = present.iter().map(|n| if form == 0 { format!("<{{% render '{n}', k: 1 %}}>") } else { format!("<{{% include '{n}' k: 1 %}}>") }).collect();
            v.push(Case { sc: empty.clone(), renders: 2, source_variant: vec![], extra_sources: extra.clone(), main_override: Some(main) });
        }
    }
    let pathy = ["x", "./x", "dir/x", "X"];
    let calls: Vec<String> = pathy.iter().flat_map(|n| [format!("<{{% render '{n}', k: 1 %}}>"), format!("<{{% include '{n}' k: 1 %}}>")]).collect();
    for set in 1u32..(1 << pathy.len()) {
        let extra: Vec<(String, String)> = pathy.iter().enumerate().filter(|(i, _)| set >> i & 1 == 1).map(|(_, n)| (n.to_string(), format!("[{n} {{{{ k }}}}]"))).collect();
        for a in 0..calls.len() {
            v.push(Case { sc: empty.clone(), renders: 2, source_variant: vec![], extra_sources: extra.clone(), main_override: Some(calls[a].clone()) });
            for b in 0..calls.len() {
                v.push(Case { sc: empty.clone(), renders: 2, source_variant: vec![], extra_sources: extra.clone(), main_override: Some(format!("{}{}", calls[a], calls[b])) });
            }
        }
    }
    v
}

/// What a name resolves to under the in-memory source, by the documented rule: the exact name;
/// `render` additionally falls back to name + ".liquid".
fn expected_literal(c: &Case) -> Option<Result<String, ()>> {
    let main = c.main_override.as_ref()?;
    let mut out = String::new();
    let mut rest = main.as_str();
    while let Some(stripped) = rest.strip_prefix("<{% ") {
        let end = stripped.find(" %}>")?;
        let call = &stripped[..end];
        rest = &stripped[end + 4..];
        let (is_render, tail) = if let Some(t) = call.strip_prefix("render '") { (true, t) } else { (false, call.strip_prefix("include '")?) };
        let name = &tail[..tail.find('\'')?];
        let find = |n: &str| c.extra_sources.iter().find(|(k, _)| k == n).map(|x| x.1.clone());
        let src = find(name).or_else(|| if is_render { find(&format!("{name}.liquid")) } else { None });
        match src {
            // sources of these families are `[LABEL {{ k }}]` + optional newline, called with k: 1
            Some(s) => {
                out.push('<');
                out.push_str(&s.replace("{{ k }}", "1"));
                out.push('>');
            }
            None => return Some(Err(())),
        }
    }
    if rest.is_empty() { Some(Ok(out)) } else { None }
}

pub fn run(ctx: &Ctx) {
    ctx.set_rule("All scenarios of the C08 generator (a main template and up to three partials that are valid, syntactically broken or absent; literal and dynamic partial names; executed and dead paths; every include/render form) plus the C08 enumerated call-form family; each scenario builds three parsers (eager, lazy, on-demand compilation over the in-memory source) and renders the main template 1..3 times on each, interleaved with an unrelated template. Oracle: build succeeds under every policy; every render has the same Ok/Err status and the same output under the three policies; the n-th render equals the first; replacing a broken partial by an absent one changes nothing; the unrelated template is unaffected. Partial sources are also varied literally (trailing / leading newline, the empty source) and a family of names with and without the `.liquid` suffix (x, x.liquid, both) is enumerated for every sequence of <= 3 include/render calls, as are mixed-case name sets (every non-empty subset of 6 names) and path-like names (x, ./x, dir/x, X: every subset x every sequence of <= 2 calls); for these literal families the expected output is also computed in closed form (the exact name; render falls back to name.liquid). Lone braces as plain text before / after the markup of a partial are source variants too. Non-trivial = a broken or absent partial exists, or partials are executed >= 2 times; distinct by scenario.");
    ctx.assume("error message texts are not compared across policies (eager and lazy word 'unknown partial' differently); within one policy a repeated render must repeat the error text");
    ctx.cases("call_forms", fixed(), oracle);
    ctx.cases("dot_liquid_names", dot_liquid(), oracle);
    ctx.cases("name_shapes", name_shapes(), oracle);
    ctx.random("scenarios", ctx.pick(20_000, 500_000), || {
        (c08::scenario(), 1u8..=3, proptest::collection::vec(prop_oneof![4 => Just(0u8), 1 => 1u8..10], 3))
            .prop_map(|(sc, renders, source_variant)| Case { sc, renders, source_variant, extra_sources: vec![], main_override: None })
    }, oracle);
}
