//! C18 — scope layers compose predictably for plugin authors (runtime stack algebra).

use crate::engine::{decode, guard, Check, Ctx, Failure, Obs};
use crate::rv::{from_view, obj, st, RV};
use liquid_core::model::{KString, Scalar, ValueView};
use liquid_core::runtime::{GlobalFrame, RuntimeBuilder, SandboxedStackFrame, StackFrame};
use liquid_core::Runtime;
use proptest::prelude::*;
use serde::{Deserialize, Serialize};
use std::collections::BTreeSet;

#[derive(Clone, Copy, Debug, PartialEq, Eq, Hash, Serialize, Deserialize)]
pub enum Op {
    /// push a plain scope with data map d (0..9: base-3 digits = how a / b are bound)
    Plain(u8),
    Sandbox(u8),
    Global,
    Pop,
    /// set_global name(0=a,1=b) value(0,1)
    SetGlobal(u8, u8),
    /// set_index name value
    SetIndex(u8, u8),
}

pub fn all_ops() -> Vec<Op> {
    let mut v = Vec::new();
    for d in 0..9 {
        v.push(Op::Plain(d));
    }
    for d in 0..9 {
        v.push(Op::Sandbox(d));
    }
    v.push(Op::Global);
    v.push(Op::Pop);
    for k in 0..2 {
        for x in 0..2 {
            v.push(Op::SetGlobal(k, x));
        }
    }
    for k in 0..2 {
        for x in 0..2 {
            v.push(Op::SetIndex(k, x));
        }
    }
    v
}

const NAMES: [&str; 2] = ["a", "b"];

/// data map number d, tagged so that the answering layer is recognisable
fn data_map(d: u8, tag: &str, shared: bool) -> Vec<(String, RV)> {
    let mut m = Vec::new();
    for (i, n) in NAMES.iter().enumerate() {
        match d / 3u8.pow(i as u32) % 3 {
            0 => {}
            // shared mode: every layer, global assignment and counter draws from the same two
            // values, so that a binding can be equal to the one it shadows
            1 if shared => m.push((n.to_string(), RV::Int(0))),
            _ if shared => m.push((n.to_string(), obj(vec![("m", RV::Int(0))]))),
            1 => m.push((n.to_string(), st(&format!("{tag}.{n}")))),
            _ => m.push((n.to_string(), obj(vec![("m", st(&format!("{tag}.{n}.m")))]))),
        }
    }
    m
}

fn global_value(k: u8, x: u8, step: usize, shared: bool) -> RV {
    if shared {
        if x == 0 { RV::Int(0) } else { obj(vec![("m", RV::Int(0))]) }
    } else if x == 0 { st(&format!("g{step}.{}", NAMES[k as usize])) } else { obj(vec![("m", st(&format!("g{step}.{}.m", NAMES[k as usize])))]) }
}

#[derive(Clone, Copy, Debug, PartialEq)]
enum Kind {
    Index,
    Plain,
    Sandbox,
    Global,
}

#[derive(Clone, Debug)]
struct Layer {
    kind: Kind,
    data: Vec<(String, RV)>,
}

/// the abstract model: a stack of maps
#[derive(Clone, Debug)]
struct Model {
    layers: Vec<Layer>,
}

fn set(m: &mut Vec<(String, RV)>, k: &str, v: RV) {
    if let Some(slot) = m.iter_mut().find(|(kk, _)| kk == k) {
        slot.1 = v;
    } else {
        m.push((k.to_string(), v));
    }
}

impl Model {
    fn new(base: &[(String, RV)]) -> Model {
        Model { layers: vec![Layer { kind: Kind::Index, data: vec![] }, Layer { kind: Kind::Plain, data: base.to_vec() }, Layer { kind: Kind::Global, data: vec![] }] }
    }
    fn lookup(&self, path: &[&str]) -> Option<RV> {
        for l in self.layers.iter().rev() {
            if let Some((_, v)) = l.data.iter().find(|(k, _)| k == path[0]) {
                let mut cur = v.clone();
                for step in &path[1..] {
                    cur = crate::interp::step(&cur, &st(step)).ok()?;
                }
                return Some(cur);
            }
            if l.kind == Kind::Sandbox {
                return None;
            }
        }
        None
    }
    fn set_global(&mut self, k: &str, v: RV) {
        if let Some(l) = self.layers.iter_mut().rev().find(|l| l.kind == Kind::Global) {
            set(&mut l.data, k, v);
        }
    }
    fn set_index(&mut self, k: &str, v: RV) {
        set(&mut self.layers[0].data, k, v);
    }
    fn get_index(&self, k: &str) -> Option<RV> {
        self.layers[0].data.iter().find(|(kk, _)| kk == k).map(|x| x.1.clone())
    }
}

const PATHS: [&[&str]; 8] = [&["a"], &["b"], &["c"], &["a", "m"], &["b", "m"], &["a", "zz"], &["b", "zz"], &["b", "a"]];

fn scalars(path: &[&str]) -> Vec<Scalar> {
    path.iter().map(|s| Scalar::new(s.to_string())).collect()
}

/// compare the real runtime `rt` with the model, at the current top of the stack
fn observe(rt: &dyn Runtime, model: &Model) -> Result<(), Failure> {
    for path in PATHS {
        let p = scalars(path);
        let want = model.lookup(path);
        let got_try = rt.try_get(&p).map(|v| from_view(v.as_view()));
        let got_get = rt.get(&p).ok().map(|v| from_view(v.as_view()));
        if got_try != want.as_ref().map(|w| w.sorted_keys()) {
            return Err(Failure::new("stack: optional lookup differs from the model (stack of maps)", format!("path={path:?} model={:?} runtime={:?}", want.map(|w| w.dump()), got_try.map(|w| w.dump()))));
        }
        if got_get != got_try {
            return Err(Failure::new("stack: failing and optional lookup disagree", format!("path={path:?} get={:?} try_get={:?}", got_get.map(|w| w.dump()), got_try.map(|w| w.dump()))));
        }
    }
    let roots: BTreeSet<String> = rt.roots().iter().map(|k| k.to_string()).collect();
    // the root listing is exactly the set of top-level names that resolve
    let mut candidates: BTreeSet<String> = roots.clone();
    for n in ["a", "b", "c"] {
        candidates.insert(n.to_string());
    }
    let resolving: BTreeSet<String> = candidates.iter().filter(|n| rt.try_get(&scalars(&[n.as_str()])).is_some()).cloned().collect();
    if roots != resolving {
        return Err(Failure::new("stack: roots() is not exactly the set of top-level names that resolve", format!("roots={roots:?} resolving={resolving:?}")));
    }
    for n in NAMES {
        let want = model.get_index(n);
        let got = rt.get_index(n).map(|v| from_view(v.as_view()));
        if got != want {
            return Err(Failure::new("stack: counters are not shared by all layers", format!("counter={n} model={:?} runtime={:?}", want.map(|w| w.dump()), got.map(|w| w.dump()))));
        }
    }
    Ok(())
}

const END: usize = usize::MAX;

struct Run<'a> {
    ops: &'a [Op],
    result: Result<(), Failure>,
    observe_every_step: bool,
    shared: bool,
}

fn exec(rt: &dyn Runtime, i: usize, model: &mut Model, depth: usize, run: &mut Run<'_>) -> usize {
    let mut i = i;
    loop {
        if run.result.is_err() {
            return END;
        }
        if run.observe_every_step || i == run.ops.len() {
            if let Err(f) = observe(rt, model) {
                run.result = Err(Failure::new(f.sig, format!("after {} of ops {:?}: {}", i, run.ops, f.detail)));
                return END;
            }
        }
        if i == run.ops.len() {
            return END;
        }
        let op = run.ops[i];
        match op {
            Op::Plain(d) | Op::Sandbox(d) => {
                let data = data_map(d, &format!("L{i}"), run.shared);
                let o = RV::Obj(data.clone()).to_object();
                let sandbox = matches!(op, Op::Sandbox(_));
                model.layers.push(Layer { kind: if sandbox { Kind::Sandbox } else { Kind::Plain }, data });
                let next = if sandbox { exec(&SandboxedStackFrame::new(rt, &o), i + 1, model, depth + 1, run) } else { exec(&StackFrame::new(rt, &o), i + 1, model, depth + 1, run) };
                if next == END {
                    return END;
                }
                model.layers.pop();
                i = next;
            }
            Op::Global => {
                model.layers.push(Layer { kind: Kind::Global, data: vec![] });
                let next = exec(&GlobalFrame::new(rt), i + 1, model, depth + 1, run);
                if next == END {
                    return END;
                }
                model.layers.pop();
                i = next;
            }
            Op::Pop => {
                if depth > 0 {
                    return i + 1;
                }
                i += 1; // nothing to pop at the base
            }
            Op::SetGlobal(k, x) => {
                let v = global_value(k, x, i, run.shared);
                rt.set_global(KString::from_ref(NAMES[k as usize]), v.to_value());
                model.set_global(NAMES[k as usize], v);
                i += 1;
            }
            Op::SetIndex(k, x) => {
                let v = if run.shared { RV::Int(x as i64) } else { RV::Int(i as i64 * 10 + x as i64) };
                rt.set_index(KString::from_ref(NAMES[k as usize]), v.to_value());
                model.set_index(NAMES[k as usize], v);
                i += 1;
            }
        }
    }
}

#[derive(Clone, Debug, Serialize, Deserialize)]
pub struct Seq {
    /// caller data map (0..3)
    pub base: u8,
    pub ops: Vec<Op>,
    /// false: every value is tagged with the layer / step that bound it; true: all values come from
    /// one two-value domain (bindings equal to the ones they shadow)
    #[serde(default)]
    pub shared: bool,
}

fn base_map(b: u8, shared: bool) -> Vec<(String, RV)> {
    match b {
        0 => vec![],
        1 => data_map(1 + 3 * 2, "base", shared),
        _ => data_map(2 + 3, "base", shared),
    }
}

pub fn oracle(c: &Seq, obs: &mut Obs) -> Check {
    let pushes = c.ops.iter().filter(|o| matches!(o, Op::Plain(_) | Op::Sandbox(_) | Op::Global)).count();
    let first_push = c.ops.iter().position(|o| matches!(o, Op::Plain(_) | Op::Sandbox(_) | Op::Global));
    let later_mut = first_push.map(|p| c.ops[p + 1..].iter().any(|o| matches!(o, Op::Pop | Op::SetGlobal(..)))).unwrap_or(false);
    if pushes >= 1 && later_mut {
        obs.nt(c.ops.as_slice());
    }
    if c.ops.iter().any(|o| matches!(o, Op::Sandbox(_))) {
        obs.class("with_sandbox");
    }
    if c.ops.iter().any(|o| matches!(o, Op::Global)) {
        obs.class("with_nested_global");
    }
    if c.shared {
        obs.class("shared_value_domain");
    }
    let base = base_map(c.base, c.shared);
    let g = RV::Obj(base.clone()).to_object();
    let mut model = Model::new(&base);
    let r = guard(|| {
        let rt = RuntimeBuilder::new().set_globals(&g).build();
        let mut run = Run { ops: &c.ops, result: Ok(()), observe_every_step: c.ops.len() > 6, shared: c.shared };
        exec(&rt, 0, &mut model, 0, &mut run);
        run.result
    });
    match r {
        Ok(r) => r,
        Err(p) => Err(Failure::new(format!("stack: runtime panics: {}", p.site()), format!("ops={:?} {}", c.ops, p.what))),
    }
}

fn seq_nth(i: u64, len: usize, ops: &[Op]) -> Option<Seq> {
    let n = ops.len() as u64;
    let mut radices = vec![2u64, 3u64];
    radices.extend(std::iter::repeat(n).take(len));
    let d = decode(i, &radices)?;
    Some(Seq { shared: d[0] == 1, base: d[1] as u8, ops: d[2..].iter().map(|x| ops[*x as usize]).collect() })
}

pub fn run(ctx: &Ctx) {
    ctx.set_rule("E2: every operation sequence of length <= 4, a strided slice of length 5 (thorough: all of length 5 and every 29th of length 6), over the 28 operations {push plain scope d, push sandboxed scope d (d = the 9 maps binding a / b to nothing, a scalar or a one-key object), push global layer, pop, set_global k v, set_index k v} from each of 3 caller data maps and in two value domains (tagged: every bound value names the layer / step that bound it; shared: all layers, global assignments and counters draw from the same two values, so a binding can equal the one it shadows), executed on the real StackFrame / SandboxedStackFrame / GlobalFrame types over `&dyn Runtime` (pop = the frame is really dropped) and on the abstract model (stack of maps + one counter map); after the last operation of every sequence (every prefix is itself an enumerated sequence): try_get(p) == model for 8 paths of length 1..2, get(p) agrees with try_get(p), roots() == the set of top-level names that resolve, get_index == model counters. E1: random sequences of length <= 12 observed after every step. Non-trivial = a push followed later by a pop or a global assignment; distinct by sequence.");
    let ops = all_ops();
    let n = ops.len() as u64;
    let full = ctx.pick(4, 4);
    for len in 0..=full {
        let ops = &ops;
        ctx.exhaustive(&format!("sequences_len{len}"), 6 * n.pow(len as u32), move |i| seq_nth(i, len, ops), oracle);
    }
    {
        let ops = &ops;
        let len = full + 1;
        ctx.strided(&format!("sequences_len{len}_slice"), 6 * n.pow(len as u32), ctx.pick(37, 1), move |i| seq_nth(i, len, ops), oracle);
    }
    if !ctx.quick() {
        let ops = &ops;
        ctx.strided("sequences_len6_slice", 6 * n.pow(6), 29, move |i| seq_nth(i, 6, ops), oracle);
    }
    let ops2 = ops.clone();
    ctx.random("random_sequences", ctx.pick(400_000, 30_000_000), move || (0u8..3, proptest::collection::vec(proptest::sample::select(ops2.clone()), 5..=12), any::<bool>()).prop_map(|(base, ops, shared)| Seq { base, ops, shared }), oracle);
}
