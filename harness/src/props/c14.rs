//! C14 — array filters neither invent nor lose elements beyond their contract.

use crate::engine::{decode, Check, Ctx, Failure, Obs};
use crate::lq::{self, Conf};
use crate::rv::{fl, obj, st, RV};
use proptest::prelude::*;
use serde::{Deserialize, Serialize};
use std::cmp::Ordering;

#[derive(Clone, Debug, Serialize, Deserialize)]
pub struct Case {
    pub arr: Vec<RV>,
    /// second array (concat) / property name / separator, depending on the group
    pub extra: Vec<RV>,
    pub group: String,
}

fn num(v: &RV) -> Option<f64> {
    match v {
        RV::Int(i) => Some(*i as f64),
        RV::Float(f) => Some(f.0),
        _ => None,
    }
}

/// reference partial order among elements: numbers with numbers, strings with strings
fn ref_cmp(a: &RV, b: &RV) -> Option<Ordering> {
    match (a, b) {
        (RV::Str(x), RV::Str(y)) => Some(x.cmp(y)),
        (RV::Bool(x), RV::Bool(y)) => Some(x.cmp(y)),
        // integers are ordered exactly (not through a double)
        (RV::Int(x), RV::Int(y)) => Some(x.cmp(y)),
        _ => match (num(a), num(b)) {
            (Some(x), Some(y)) => x.partial_cmp(&y),
            _ => None,
        },
    }
}

/// Equality for the dedup reference: containers structurally in the harness (same keys / same
/// length, members equal), everything else as the comparison reference of C06 does.
fn ref_eq(a: &RV, b: &RV) -> bool {
    match (a, b) {
        (RV::Obj(x), RV::Obj(y)) => x.len() == y.len() && x.iter().all(|(k, v)| y.iter().any(|(k2, v2)| k == k2 && ref_eq(v, v2))),
        (RV::Arr(x), RV::Arr(y)) => x.len() == y.len() && x.iter().zip(y).all(|(p, q)| ref_eq(p, q)),
        _ => crate::interp::compare(a, "==", b).unwrap_or(false),
    }
}

fn show(r: &lq::R<RV>) -> String {
    match r {
        Ok(Ok(v)) => format!("Ok({})", v.dump()),
        Ok(Err(e)) => format!("Err({:?})", e.lines().next().unwrap_or("")),
        Err(p) => format!("PANIC({})", p.what),
    }
}

fn app(f: &str, input: &RV, args: &[RV]) -> lq::R<RV> {
    lq::apply(Conf::Stdlib, f, input, args)
}

fn arr_of(f: &str, input: &RV, args: &[RV]) -> Result<Vec<RV>, Failure> {
    match app(f, input, args) {
        Ok(Ok(RV::Arr(a))) => Ok(a),
        Err(p) => Err(Failure::new(format!("{f}: panics: {}", p.site()), format!("input={} args={:?} {}", input.dump(), args.iter().map(|a| a.dump()).collect::<Vec<_>>(), p.what))),
        other => Err(Failure::new(format!("{f}: fails or does not return an array"), format!("input={} args={:?} got={}", input.dump(), args.iter().map(|a| a.dump()).collect::<Vec<_>>(), show(&other)))),
    }
}

fn multiset(v: &[RV]) -> Vec<String> {
    let mut d: Vec<String> = v.iter().map(|x| x.dump()).collect();
    d.sort();
    d
}

fn fail(sig: &str, input: &[RV], got: &[RV], more: &str) -> Check {
    Err(Failure::new(sig, format!("input={} got={} {more}", RV::Arr(input.to_vec()).dump(), RV::Arr(got.to_vec()).dump())))
}

/// sort contract on `out` given `inp`, with `key` extracting the sort key (None = nil/absent)
/// Ok(true) when the keys are mutually comparable (full contract checked), Ok(false) otherwise.
fn check_sorted(name: &str, inp: &[RV], out: &[RV], key: &dyn Fn(&RV) -> Option<RV>, natural: bool) -> Result<bool, Failure> {
    if multiset(inp) != multiset(out) {
        return fail(&format!("{name}: output is not a permutation of the input"), inp, out, "").map(|_| false);
    }
    let k = |v: &RV| -> Option<RV> {
        let k = key(v)?;
        if natural { Some(RV::Str(k.render().to_lowercase())) } else { Some(k) }
    };
    let keys: Vec<Option<RV>> = out.iter().map(&k).collect();
    let comparable = {
        let some: Vec<&RV> = keys.iter().flatten().collect();
        some.iter().all(|a| some.iter().all(|b| ref_cmp(a, b).is_some()))
    };
    if !comparable {
        return Ok(false); // only permutation + no failure is claimed for incomparable input
    }
    // nil last
    if let Some(first_nil) = keys.iter().position(|x| x.is_none()) {
        if keys[first_nil..].iter().any(|x| x.is_some()) {
            return fail(&format!("{name}: nil is not last"), inp, out, "").map(|_| false);
        }
    }
    // non-decreasing
    for w in keys.windows(2) {
        if let (Some(a), Some(b)) = (&w[0], &w[1]) {
            if ref_cmp(a, b) == Some(Ordering::Greater) {
                return fail(&format!("{name}: output is not non-decreasing"), inp, out, "").map(|_| false);
            }
        }
    }
    // stable: elements with equal keys keep their input order (distinguishable by dump)
    let mut expected: Vec<RV> = inp.to_vec();
    // reference: stable insertion sort with nil last
    let lt = |a: &RV, b: &RV| -> bool {
        match (k(a), k(b)) {
            (Some(x), Some(y)) => ref_cmp(&x, &y) == Some(Ordering::Less),
            (Some(_), None) => true,
            _ => false,
        }
    };
    for i in 1..expected.len() {
        let mut j = i;
        while j > 0 && lt(&expected[j], &expected[j - 1]) {
            expected.swap(j, j - 1);
            j -= 1;
        }
    }
    if expected != out {
        return fail(&format!("{name}: not stable (equal elements reordered)"), inp, out, &format!("expected={}", RV::Arr(expected).dump())).map(|_| false);
    }
    Ok(true)
}

fn slice_ref(a: &[RV], o: i64, l: i64) -> Vec<RV> {
    let n = a.len() as i64;
    let start = if o < 0 { o + n } else { o };
    if start < 0 || start >= n || l < 1 {
        return vec![];
    }
    a[start as usize..((start + l).min(n)) as usize].to_vec()
}

pub fn oracle(c: &Case, obs: &mut Obs) -> Check {
    let a = &c.arr;
    let input = RV::Arr(a.clone());
    let dup = a.iter().enumerate().any(|(i, x)| a[..i].iter().any(|y| ref_eq(x, y)));
    let kinds: std::collections::HashSet<&str> = a.iter().map(|x| x.kind()).collect();
    if a.len() >= 2 && (dup || a.contains(&RV::Nil) || kinds.len() >= 2) {
        obs.nt(&(c.group.as_str(), input.dump(), c.extra.iter().map(|e| e.dump()).collect::<Vec<_>>()));
    }
    let ident = |v: &RV| if matches!(v, RV::Nil) { None } else { Some(v.clone()) };
    match c.group.as_str() {
        "scalars" | "strings" | "long" => {
            let sorted = arr_of("sort", &input, &[])?;
            let comparable = check_sorted("sort", a, &sorted, &ident, false)?;
            let again = arr_of("sort", &RV::Arr(sorted.clone()), &[])?;
            if comparable && again != sorted {
                return fail("sort: not idempotent", &sorted, &again, "");
            }
            let nat = arr_of("sort_natural", &input, &[])?;
            check_sorted("sort_natural", a, &nat, &ident, true)?;
            let rev = arr_of("reverse", &input, &[])?;
            if rev != a.iter().rev().cloned().collect::<Vec<_>>() {
                return fail("reverse: not the reversed input", a, &rev, "");
            }
            let uniq = arr_of("uniq", &input, &[])?;
            let mut exp: Vec<RV> = Vec::new();
            for x in a {
                if !exp.iter().any(|y| ref_eq(y, x)) {
                    exp.push(x.clone());
                }
            }
            if uniq != exp {
                return fail("uniq: does not drop exactly the elements equal to an earlier kept one", a, &uniq, &format!("expected={}", RV::Arr(exp).dump()));
            }
            let compact = arr_of("compact", &input, &[])?;
            if compact != a.iter().filter(|x| !matches!(x, RV::Nil)).cloned().collect::<Vec<_>>() {
                return fail("compact: does not remove exactly the nils", a, &compact, "");
            }
            obs.extra_evals += 6;
            if c.group != "long" {
                let b = &c.extra;
                let cat = arr_of("concat", &input, &[RV::Arr(b.clone())])?;
                if cat != a.iter().chain(b.iter()).cloned().collect::<Vec<_>>() {
                    return fail("concat: not input followed by the argument", a, &cat, "");
                }
                let first = app("first", &input, &[]);
                let last = app("last", &input, &[]);
                let size = app("size", &input, &[]);
                let want_first = a.first().cloned().unwrap_or(RV::Nil);
                let want_last = a.last().cloned().unwrap_or(RV::Nil);
                if !matches!(&first, Ok(Ok(v)) if *v == want_first) || !matches!(&last, Ok(Ok(v)) if *v == want_last) || !matches!(&size, Ok(Ok(RV::Int(n))) if *n == a.len() as i64) {
                    return Err(Failure::new("first/last/size: disagree with indexing", format!("input={} first={} last={} size={}", input.dump(), show(&first), show(&last), show(&size))));
                }
                for o in -6..=6i64 {
                    for l in [1i64, 2, 5] {
                        let s = arr_of("slice", &input, &[RV::Int(o), RV::Int(l)])?;
                        if s != slice_ref(a, o, l) {
                            return fail("slice: not the contiguous piece selected by offset/length", a, &s, &format!("offset={o} length={l}"));
                        }
                    }
                }
                let joined = app("join", &input, &[st(",")]);
                let want = a.iter().map(|x| x.render()).collect::<Vec<_>>().join(",");
                if !matches!(&joined, Ok(Ok(RV::Str(s))) if *s == want) {
                    return Err(Failure::new("join: not the elements separated by the separator", format!("input={} got={} want={want:?}", input.dump(), show(&joined))));
                }
                obs.extra_evals += 44;
            }
            Ok(())
        }
        "objects" => {
            let prop = c.extra.first().cloned().unwrap_or(st("k"));
            let RV::Str(pname) = &prop else { return Ok(()) };
            let get = |v: &RV| -> Option<RV> { v.get_key(pname).cloned() };
            let key = |v: &RV| -> Option<RV> { get(v).filter(|x| !matches!(x, RV::Nil)) };
            let mapped = arr_of("map", &input, &[prop.clone()])?;
            let want: Vec<RV> = a.iter().filter_map(|v| get(v)).collect();
            if mapped != want {
                return fail("map: not the property values of exactly the objects that have the property, in order", a, &mapped, &format!("property={pname}"));
            }
            let wh = arr_of("where", &input, &[prop.clone()])?;
            let want: Vec<RV> = a.iter().filter(|v| get(v).map(|x| x.truthy()).unwrap_or(false)).map(|v| v.sorted_keys()).collect();
            if wh != want {
                return fail("where: not exactly the objects whose property is truthy, in order", a, &wh, &format!("property={pname}"));
            }
            for target in [RV::Int(1), RV::Int(2), st("x"), RV::Bool(false)] {
                let wh = arr_of("where", &input, &[prop.clone(), target.clone()])?;
                let want: Vec<RV> = a.iter().filter(|v| get(v).map(|x| ref_eq(&x, &target)).unwrap_or(false)).map(|v| v.sorted_keys()).collect();
                if wh != want {
                    return fail("where: not exactly the objects whose property equals the target, in order", a, &wh, &format!("property={pname} target={}", target.dump()));
                }
            }
            let sorted_in: Vec<RV> = a.iter().map(|v| v.sorted_keys()).collect();
            let sorted = arr_of("sort", &input, &[prop.clone()])?;
            let comparable = check_sorted("sort by property", &sorted_in, &sorted, &key, false)?;
            let again = arr_of("sort", &RV::Arr(sorted.clone()), &[prop.clone()])?;
            if comparable && again != sorted {
                return fail("sort by property: not idempotent", &sorted, &again, "");
            }
            let nat = arr_of("sort_natural", &input, &[prop.clone()])?;
            check_sorted("sort_natural by property", &sorted_in, &nat, &key, true)?;
            let compact = arr_of("compact", &input, &[prop.clone()])?;
            let want: Vec<RV> = sorted_in.iter().filter(|v| key(v).is_some()).cloned().collect();
            if compact != want {
                return fail("compact by property: does not remove exactly the objects whose property is nil or absent", a, &compact, &format!("property={pname}"));
            }
            obs.extra_evals += 10;
            Ok(())
        }
        _ => Ok(()),
    }
}

fn scalar_pool() -> Vec<RV> {
    vec![RV::Int(1), RV::Int(2), fl(2.0), RV::Int(3), RV::Nil, RV::Nil]
}
fn string_pool() -> Vec<RV> {
    vec![st("a"), st("A"), st("b"), st("B"), RV::Nil]
}
fn object_pool(id: usize) -> Vec<RV> {
    let idv = st(&format!("id{id}"));
    vec![
        obj(vec![("k", RV::Int(1)), ("id", idv.clone())]),
        obj(vec![("k", RV::Int(2)), ("id", idv.clone())]),
        obj(vec![("k", fl(2.0)), ("id", idv.clone())]),
        obj(vec![("k", RV::Nil), ("id", idv.clone())]),
        obj(vec![("id", idv.clone())]),
        obj(vec![("k", RV::Bool(false)), ("id", idv.clone())]),
        obj(vec![("k", st("x")), ("id", idv.clone()), ("j", RV::Int(id as i64))]),
    ]
}

fn arrays_nth(i: u64, pool: &[RV], maxlen: usize, group: &str) -> Option<Case> {
    let k = pool.len() as u64;
    let mut i = i;
    // extra array: index into arrays of length <= 2 over the same pool
    let extra_n = 1 + k + k * k;
    let e = i % extra_n;
    i /= extra_n;
    let extra = if e == 0 { vec![] } else if e <= k { vec![pool[(e - 1) as usize].clone()] } else { vec![pool[((e - 1 - k) / k) as usize].clone(), pool[((e - 1 - k) % k) as usize].clone()] };
    for l in 0..=maxlen {
        let n = k.pow(l as u32);
        if i < n {
            let d = decode(i, &vec![k; l])?;
            if l >= 3 && e > 2 {
                return None; // concat argument variety only matters for short inputs
            }
            return Some(Case { arr: d.iter().map(|x| pool[*x as usize].clone()).collect(), extra, group: group.into() });
        }
        i -= n;
    }
    None
}

fn objects_nth(i: u64, maxlen: usize) -> Option<Case> {
    let props = ["k", "zz", "id"];
    let mut i = i;
    let p = (i % 3) as usize;
    i /= 3;
    for l in 0..=maxlen {
        let n = 7u64.pow(l as u32);
        if i < n {
            let d = decode(i, &vec![7; l])?;
            return Some(Case { arr: d.iter().enumerate().map(|(pos, x)| object_pool(pos)[*x as usize].clone()).collect(), extra: vec![st(props[p])], group: "objects".into() });
        }
        i -= n;
    }
    None
}

fn long_arrays() -> BoxedStrategy<Case> {
    let comparable = prop_oneof![(-20i64..20).prop_map(RV::Int), (-40i64..40).prop_map(|k| fl(k as f64 / 2.0)), Just(RV::Nil)];
    let strings = prop_oneof![proptest::sample::select(vec!["a", "A", "b", "B", "aa", "Ab", "é", ""]).prop_map(st), Just(RV::Nil)];
    let mixed = prop_oneof![
        (-5i64..5).prop_map(RV::Int),
        proptest::sample::select(vec!["a", "B", "1", ""]).prop_map(st),
        any::<bool>().prop_map(RV::Bool),
        Just(RV::Nil),
        Just(RV::Arr(vec![RV::Int(1)])),
        Just(obj(vec![("a", RV::Int(1))])),
        (-4i64..4).prop_map(|k| fl(k as f64 + 0.5)),
    ];
    let arr = |e: BoxedStrategy<RV>| proptest::collection::vec(e, 0..=60);
    (prop_oneof![3 => arr(comparable.boxed()), 2 => arr(strings.boxed()), 3 => arr(mixed.boxed())], 0u8..4)
        .prop_map(|(mut v, order)| {
            let key = |x: &RV| (x.kind().to_string(), x.render());
            match order {
                1 => v.sort_by_key(key),
                2 => {
                    v.sort_by_key(key);
                    v.reverse();
                }
                3 => {
                    // organ pipe
                    v.sort_by_key(key);
                    let (mut a, mut b) = (Vec::new(), Vec::new());
                    for (i, x) in v.into_iter().enumerate() {
                        if i % 2 == 0 { a.push(x) } else { b.push(x) }
                    }
                    b.reverse();
                    a.extend(b);
                    v = a;
                }
                _ => {}
            }
            Case { arr: v, extra: vec![], group: "long".into() }
        })
        .boxed()
}

fn long_objects() -> BoxedStrategy<Case> {
    proptest::collection::vec(0usize..7, 0..=40)
        .prop_map(|v| Case { arr: v.into_iter().enumerate().map(|(pos, x)| object_pool(pos)[x].clone()).collect(), extra: vec![st("k")], group: "objects".into() })
        .boxed()
}

fn count(k: u64, maxlen: usize) -> u64 {
    (0..=maxlen).map(|l| k.pow(l as u32)).sum()
}

pub fn run(ctx: &Ctx) {
    ctx.set_rule("E2: all arrays of length 0..5 over the comparable pool {1, 2, 2.0, 3, nil, nil} (thorough: 0..6) and over {a, A, b, B, nil}, arrays of length 0..4 over integers that are not doubles {2^53, 2^53+1, 2^53+2, MAX-1, MAX, MIN, nil} and of length 0..3 over single-key objects differing in which key they hold and whether it holds nil, through sort, sort_natural, reverse, uniq, compact, concat (every second array of length <= 2), first, last, size, slice (offset -6..6 x length 1,2,5) and join; all arrays of length 0..4 (thorough 5) of objects whose property k is 1 / 2 / 2.0 / nil / absent / false / a string, each with a distinct id, through map, where (truthy and four targets), sort / sort_natural / compact by property, for the property names k (present), zz (absent), id; E1: arrays of up to 60 elements (beyond the 20-element threshold) in random, sorted, reversed and organ-pipe order over comparable numbers, case-differing strings and mixed incomparable kinds; long object arrays. Oracles: permutation (multiset), non-decreasing with nil last, stability against a reference insertion sort, idempotence, reference first-occurrence dedup under the value model's equality, exact reference results for the others. Non-trivial = >= 2 elements with a duplicate, a nil or two kinds; distinct by (group, array, argument).");
    ctx.assume("for arrays holding mutually incomparable elements only the permutation property and absence of failure are claimed for sort");
    let sp = scalar_pool();
    let tp = string_pool();
    let (ls, lo) = (ctx.pick(5, 6), ctx.pick(4, 5));
    let extra_n = |k: u64| 1 + k + k * k;
    {
        let sp = &sp;
        ctx.exhaustive("scalar_arrays", count(6, ls) * extra_n(6), move |i| arrays_nth(i, sp, ls, "scalars"), oracle);
    }
    {
        let tp = &tp;
        ctx.exhaustive("string_arrays", count(5, 5) * extra_n(5), move |i| arrays_nth(i, tp, 5, "strings"), oracle);
    }
    ctx.exhaustive("object_arrays", count(7, lo) * 3, move |i| objects_nth(i, lo), oracle);
    // integers that are not doubles (distinct values, one double), next to that double
    // (no float in this pool: 2^53+1 == 2^53 as a double == 2^53 but 2^53+1 > 2^53 is not an order)
    let bp = vec![RV::Int(1 << 53), RV::Int((1 << 53) + 1), RV::Int(i64::MAX - 1), RV::Int(i64::MAX), RV::Int(i64::MIN), RV::Int((1 << 53) + 2), RV::Nil];
    {
        let bp = &bp;
        ctx.exhaustive("bigint_arrays", count(7, 4) * extra_n(7), move |i| arrays_nth(i, bp, 4, "scalars"), oracle);
    }
    // objects that differ only in which key holds nil / is absent (equality must look at both sides)
    // (single-key objects: how an object with several keys prints is unspecified)
    let np = vec![obj(vec![("a", RV::Nil)]), obj(vec![("b", RV::Nil)]), obj(vec![("a", RV::Int(1))]), obj(vec![("b", RV::Int(1))]), obj(vec![("c", RV::Bool(false))]), obj(vec![]), RV::Nil];
    {
        let np = &np;
        ctx.exhaustive("nil_member_object_arrays", count(7, 3) * extra_n(7), move |i| arrays_nth(i, np, 3, "scalars"), oracle);
    }
    ctx.random("long_arrays", ctx.pick(150_000, 8_000_000), long_arrays, oracle);
    ctx.random("long_object_arrays", ctx.pick(40_000, 2_500_000), long_objects, oracle);
}
