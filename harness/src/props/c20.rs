//! C20 — parsers and templates can be shared across threads without changing results.
//! Randomised stress with a sequential oracle (the harness does not own the scheduler).

use crate::engine::{Check, Ctx, Failure, Obs};
use crate::lq::{self, Policy};
use crate::props::c09;
use crate::rv::RV;
use proptest::prelude::*;
use serde::{Deserialize, Serialize};
use std::sync::atomic::{AtomicUsize, Ordering};
use std::sync::{mpsc, Arc, Barrier};
use std::time::Duration;

#[derive(Clone, Copy, Debug, PartialEq, Eq, Hash, Serialize, Deserialize)]
pub enum Call {
    /// render shared template t with data d
    Render(usize, usize),
    /// parse source t on the shared parser, then render it with data d
    ParseRender(usize, usize),
}

#[derive(Clone, Debug, Serialize, Deserialize)]
pub struct Case {
    pub templates: Vec<String>,
    pub partials: Vec<(String, String)>,
    pub data: Vec<RV>,
    /// per thread: its calls
    pub calls: Vec<Vec<Call>>,
    /// per thread: spin iterations before the first call
    pub skews: Vec<u32>,
    /// per thread: yield between calls
    pub yields: Vec<bool>,
    pub reps: u32,
}

type Res = Result<String, String>;

fn key(r: &lq::R<String>) -> Res {
    match r {
        Ok(Ok(s)) => Ok(s.clone()),
        Ok(Err(e)) => Err(e.clone()),
        Err(p) => Err(format!("PANIC {}", p.what)),
    }
}

fn do_call(parser: &liquid::Parser, shared: &[lq::R<liquid::Template>], templates: &[String], objects: &[liquid::Object], c: Call) -> Res {
    match c {
        Call::Render(t, d) => match &shared[t] {
            Ok(Ok(tpl)) => key(&lq::render(tpl, &objects[d])),
            Ok(Err(e)) => Err(format!("parse: {e}")),
            Err(p) => Err(format!("PANIC {}", p.what)),
        },
        Call::ParseRender(t, d) => match lq::parse(parser, &templates[t]) {
            Ok(Ok(tpl)) => key(&lq::render(&tpl, &objects[d])),
            Ok(Err(e)) => Err(format!("parse: {e}")),
            Err(p) => Err(format!("PANIC {}", p.what)),
        },
    }
}

struct Shared {
    parser: liquid::Parser,
    parsed: Vec<lq::R<liquid::Template>>,
    templates: Vec<String>,
    objects: Vec<liquid::Object>,
}

// the guarded results hold Panicked (plain strings) and liquid types that are Send + Sync
unsafe impl Sync for Shared {}
unsafe impl Send for Shared {}

fn build(c: &Case) -> Result<Shared, Failure> {
    let parser = match lq::parser_with_partials(Policy::Lazy, &c.partials) {
        Ok(Ok(p)) => p,
        other => return Err(Failure::new("threads: parser with a lazy partial store does not build", format!("{:?}", other.map(|r| r.map(|_| ())).map_err(|p| p.what)))),
    };
    let parsed = c.templates.iter().map(|s| lq::parse(&parser, s)).collect();
    Ok(Shared { parser, parsed, templates: c.templates.clone(), objects: c.data.iter().map(|d| d.to_object()).collect() })
}

pub static STALLS: AtomicUsize = AtomicUsize::new(0);

pub fn oracle(c: &Case, obs: &mut Obs) -> Check {
    let nthreads = c.calls.len();
    // sequential oracle: every distinct call alone on a fresh parser
    let mut expected: std::collections::HashMap<Call, Res> = Default::default();
    for call in c.calls.iter().flatten() {
        if !expected.contains_key(call) {
            let sh = build(c)?;
            let alone = do_call(&sh.parser, &sh.parsed, &sh.templates, &sh.objects, *call);
            if let Err(e) = &alone {
                if e.starts_with("PANIC") {
                    return Err(Failure::new("threads: a call executed alone panics (state left behind by an earlier call in this process?)", format!("call {call:?} template={:?} {e}", c.templates.get(match call { Call::Render(t, _) | Call::ParseRender(t, _) => *t }).map(|s| s.chars().take(120).collect::<String>()))));
                }
            }
            expected.insert(*call, alone);
        }
    }
    let expected = Arc::new(expected);
    let same_template_shared = {
        let mut seen: std::collections::HashMap<usize, usize> = Default::default();
        for (ti, calls) in c.calls.iter().enumerate() {
            for call in calls {
                if let Call::Render(t, _) = call {
                    let e = seen.entry(*t).or_insert(ti);
                    if *e != ti {
                        *e = usize::MAX;
                    }
                }
            }
        }
        seen.values().any(|v| *v == usize::MAX)
    };
    if nthreads >= 2 && same_template_shared {
        obs.nt(&(c.templates.clone(), c.calls.clone(), nthreads));
    }
    for rep in 0..c.reps {
        // a fresh parser each repetition so that the first-touch race on the lazy cache is exercised
        let shared = Arc::new(build(c)?);
        let barrier = Arc::new(Barrier::new(nthreads));
        let (tx, rx) = mpsc::channel::<(usize, Vec<(Call, Res)>)>();
        for ti in 0..nthreads {
            let (shared, barrier, tx) = (shared.clone(), barrier.clone(), tx.clone());
            let calls = c.calls[ti].clone();
            let skew = c.skews.get(ti).copied().unwrap_or(0).wrapping_mul(rep + 1) % 4000;
            let yields = c.yields.get(ti).copied().unwrap_or(false);
            std::thread::spawn(move || {
                barrier.wait();
                let mut x = 0u64;
                for i in 0..skew {
                    x = x.wrapping_add(std::hint::black_box(i as u64));
                }
                std::hint::black_box(x);
                let mut out = Vec::with_capacity(calls.len());
                for call in calls {
                    out.push((call, do_call(&shared.parser, &shared.parsed, &shared.templates, &shared.objects, call)));
                    if yields {
                        std::thread::yield_now();
                    }
                }
                let _ = tx.send((ti, out));
            });
        }
        drop(tx);
        let mut done = 0;
        while done < nthreads {
            match rx.recv_timeout(Duration::from_secs(20)) {
                Ok((ti, results)) => {
                    done += 1;
                    for (call, got) in results {
                        let want = &expected[&call];
                        if got != *want {
                            return Err(Failure::new(
                                if got.as_ref().err().map(|e| e.starts_with("PANIC")).unwrap_or(false) { "threads: a concurrent call panics" } else { "threads: a concurrent call returns something else than the same call executed alone" },
                                format!("repetition {rep}, thread {ti} of {nthreads}, call {call:?}\n templates={:?}\n partials={:?}\n alone: {want:?}\n concurrently: {got:?}", c.templates, c.partials.iter().map(|(n, s)| (n, s.chars().take(80).collect::<String>())).collect::<Vec<_>>()),
                            ));
                        }
                    }
                }
                Err(_) => {
                    STALLS.fetch_add(1, Ordering::Relaxed);
                    return Err(Failure::new("threads: threads did not terminate within 20 s (deadlock?)", format!("repetition {rep} threads={nthreads} calls={:?}", c.calls)));
                }
            }
        }
        obs.extra_evals += c.calls.iter().map(|v| v.len() as u64).sum::<u64>();
        // the used parser still answers like a fresh one
        for (call, want) in expected.iter() {
            let got = do_call(&shared.parser, &shared.parsed, &shared.templates, &shared.objects, *call);
            if got != *want {
                return Err(Failure::new("threads: after concurrent use the parser/templates answer differently (poisoned or corrupted state)", format!("call {call:?} alone-on-fresh: {want:?} after-concurrent-use: {got:?}")));
            }
        }
    }
    Ok(())
}

fn big_partial() -> String {
    let mut s = String::from("(big");
    for i in 0..1500 {
        s.push_str(&format!("{{% if k == {i} %}}{{{{ k | plus: {i} }}}}{{% endif %}}"));
    }
    s.push_str("{{ k }})");
    s
}

fn family_case(which: usize, threads: usize, per_thread: usize, reps: u32, seed: u64) -> Case {
    let fam = c09::family();
    let (mut templates, mut partials, data) = fam[which % fam.len()].clone();
    partials.push(("big".into(), big_partial()));
    templates.push("{% for i in arr %}{% include 'big' k: i %}{% render 'big', k: i %}{% if i == stop %}{% break %}{% endif %}{% ifchanged %}{{ i }}{% endifchanged %}{% endfor %}|{% include 'bad' %}".into());
    templates.push("{% for i in (1..6) %}{% ifchanged %}{{ i | modulo: 2 }}{% endifchanged %}{% if i == 3 %}{% continue %}{% endif %}{% cycle 'a', 'b' %}{% if i == 5 %}{% break %}{% endif %}.{% endfor %}|{% for j in arr %}{% break %}never{% endfor %}".into());
    // a template that is rejected through the parser's error-reporting path (markup after
    // multi-byte text on one line) and a large valid one (~45 KB): parsing them side by side
    // exercises whatever process-wide state the parsing machinery keeps
    templates.push("ࠀé{%unless''%}{%'%}".into());
    templates.push(big_partial());
    let nt = templates.len();
    let nd = data.len();
    let mut x = seed.wrapping_mul(6364136223846793005).wrapping_add(1442695040888963407);
    let mut next = |m: usize| {
        x ^= x << 13;
        x ^= x >> 7;
        x ^= x << 17;
        (x % m as u64) as usize
    };
    let calls = (0..threads).map(|_| (0..per_thread).map(|_| if next(5) == 0 { Call::ParseRender(next(nt), next(nd)) } else { Call::Render(next(nt), next(nd)) }).collect()).collect();
    Case { templates, partials, data, calls, skews: (0..threads).map(|i| (i as u32 * 331) % 2000).collect(), yields: (0..threads).map(|i| i % 2 == 0).collect(), reps }
}

fn family_nth(i: u64, reps: u32) -> Option<Case> {
    let d = crate::engine::decode(i, &[c09::family().len() as u64, 5, 8])?;
    let threads = [2, 3, 4, 8, 16][d[1] as usize];
    Some(family_case(d[0] as usize, threads, 3 + (d[2] as usize * 2), reps, i))
}

pub fn run(ctx: &Ctx) {
    ctx.set_rule("E5 randomised stress with a sequential oracle: scenarios = one shared Parser with a lazy partial store (valid, large, broken and missing partials nobody has touched yet; 100 small partials all used by one template; names resolved through the `.liquid` fallback for one datum and directly for another; one template writing 12 KB) + a template rejected through the error-reporting path and a 45 KB template, parsed concurrently + templates parsed once and shared by reference (stateful constructs: cycle, increment, ifchanged, capture, break/continue, include/render); T in {2, 3, 4, 8, 16} threads released together by a barrier, each performing 3..17 parse/render calls, with per-thread start skews and yield injection, every scenario repeated R times (quick 20, thorough 60) on a fresh parser so that the first simultaneous use of the lazy cache happens every time. Oracle: every concurrent call's result equals the same call executed alone on a fresh parser; all threads terminate within 20 s; afterwards the used parser answers like a fresh one; no panic. evaluations counts concurrent calls; non-trivial = >= 2 threads render the same shared template; distinct by (templates, per-thread call lists, thread count).");
    ctx.assume("the harness does not control the scheduler: a race needing a window of a few instructions can be missed (see DESIGN 4.20 / 7)");
    let reps = ctx.pick(20, 60);
    // sub-checks run their cases on the 16 engine shards in parallel; each case itself spawns
    // up to 16 threads, which oversubscribes the cores and varies the interleavings further
    ctx.exhaustive("family_stress", c09::family().len() as u64 * 5 * 8, move |i| family_nth(i, reps), oracle);
    ctx.random("random_stress", ctx.pick(200, 800), move || {
        (0usize..c09::family().len(), proptest::sample::select(vec![2usize, 3, 4, 8, 16]), 3usize..20, any::<u64>()).prop_map(move |(w, t, n, seed)| family_case(w, t, n, reps.min(40), seed))
    }, oracle);
    let stalls = STALLS.load(Ordering::Relaxed);
    ctx.note("watchdog_stalls", serde_json::json!(stalls));
}
