//! C06 — conditionals render exactly one branch, chosen by Liquid truth and comparison.

use crate::ast::*;
use crate::astgen::{self, GenCfg};
use crate::engine::{decode, Check, Ctx, Obs};
use crate::gen;
use crate::props::c03::differential;
use crate::rv::{fl, obj, st, RV};
use proptest::prelude::*;
use serde::{Deserialize, Serialize};

pub fn pool() -> Vec<RV> {
    vec![
        RV::Nil,
        RV::Bool(true),
        RV::Bool(false),
        RV::Int(0),
        RV::Int(1),
        RV::Int(-1),
        RV::Int(2),
        RV::Int(10),
        // distinct integers that are one and the same double
        RV::Int(9_007_199_254_740_992),
        RV::Int(9_007_199_254_740_993),
        RV::Int(i64::MAX - 1),
        RV::Int(i64::MAX),
        RV::Int(i64::MIN),
        fl(9_007_199_254_740_992.0),
        fl(1.0),
        fl(1.5),
        fl(2.0),
        st("1"),
        st("10"),
        st("a"),
        st("A"),
        st("b"),
        st(""),
        st(" "),
        st("true"),
        RV::Arr(vec![]),
        RV::Arr(vec![RV::Int(1)]),
        RV::Arr(vec![RV::Int(1), RV::Int(2)]),
        RV::Arr(vec![st("a")]),
        RV::Arr(vec![RV::Nil]),
        RV::Arr(vec![RV::Arr(vec![RV::Int(1)])]),
        obj(vec![]),
        obj(vec![("a", RV::Int(1))]),
        obj(vec![("b", RV::Nil)]),
        RV::Empty,
        RV::Blank,
    ]
}

fn literal_of(v: &RV) -> Option<Lit> {
    Some(match v {
        RV::Nil => Lit::Nil,
        RV::Bool(b) => Lit::Bool(*b),
        RV::Int(i) => Lit::Int(*i),
        RV::Float(f) => Lit::Float(format!("{:?}", f.0)),
        RV::Str(s) => Lit::Str(s.clone(), false),
        RV::Empty => Lit::Empty,
        RV::Blank => Lit::Blank,
        _ => return None,
    })
}

const OPS: [&str; 9] = ["==", "!=", "<>", "<", ">", "<=", ">=", "contains", "=="];

#[derive(Clone, Debug, Serialize, Deserialize)]
pub struct Prog {
    pub nodes: Vec<Node>,
    pub data: RV,
}

fn txt(s: &str) -> Node {
    Node::Text(s.to_string())
}

pub fn oracle(c: &Prog, obs: &mut Obs) -> Check {
    obs.nt(&(print(&c.nodes), c.data.dump()));
    differential(&c.nodes, &c.data, &[], obs, "conditional")
}

/// (i) operator x ordered pair, each operand as literal or variable, in if and unless
fn pairs_nth(i: u64) -> Option<Prog> {
    let p = pool();
    let n = p.len() as u64;
    let d = decode(i, &[8, n, n, 2, 2, 2])?;
    let (a, b) = (&p[d[1] as usize], &p[d[2] as usize]);
    let operand = |v: &RV, lit: bool, name: &str| -> Option<Expr> {
        if lit {
            literal_of(v).map(Expr::Lit)
        } else {
            Some(Expr::var(name))
        }
    };
    let ea = operand(a, d[3] == 1, "va")?;
    let eb = operand(b, d[4] == 1, "vb")?;
    let cond = Cond::atom(Atom::Cmp(ea, OPS[d[0] as usize].to_string(), eb));
    let data = obj(vec![("va", a.clone()), ("vb", b.clone())]);
    let node = if d[5] == 0 {
        Node::If { arms: vec![(cond, vec![txt("T")], Tr::PLAIN)], else_: Some((vec![txt("F")], Tr::PLAIN)), close: Tr::PLAIN }
    } else {
        Node::Unless { cond, body: vec![txt("U")], else_: Some((vec![txt("E")], Tr::PLAIN)), open: Tr::PLAIN, close: Tr::PLAIN }
    };
    Some(Prog { nodes: vec![txt("<"), node, txt(">")], data })
}

/// (ii) bare truthiness in if / unless / elsif, literal and variable, plus an undefined name
fn truth_nth(i: u64) -> Option<Prog> {
    let p = pool();
    let n = p.len() as u64 + 1;
    let d = decode(i, &[n, 2, 3])?;
    let (e, data) = if d[0] as usize == p.len() {
        if d[1] == 1 {
            return None;
        }
        (Expr::var("undefined_name"), obj(vec![]))
    } else {
        let v = &p[d[0] as usize];
        let e = if d[1] == 1 { Expr::Lit(literal_of(v)?) } else { Expr::var("v") };
        (e, obj(vec![("v", v.clone())]))
    };
    let c = Cond::truthy(e);
    let node = match d[2] {
        0 => Node::If { arms: vec![(c, vec![txt("T")], Tr::PLAIN)], else_: Some((vec![txt("F")], Tr::PLAIN)), close: Tr::PLAIN },
        1 => Node::Unless { cond: c, body: vec![txt("U")], else_: Some((vec![txt("E")], Tr::PLAIN)), open: Tr::PLAIN, close: Tr::PLAIN },
        _ => Node::If { arms: vec![(Cond::lit(false), vec![txt("0")], Tr::PLAIN), (c, vec![txt("T")], Tr::PLAIN)], else_: Some((vec![txt("F")], Tr::PLAIN)), close: Tr::PLAIN },
    };
    Some(Prog { nodes: vec![txt("<"), node, txt(">")], data })
}

/// (iii-a) if/elsif chains of 1..4 arms x all truth assignments x with/without else
fn chain_nth(i: u64) -> Option<Prog> {
    let d = decode(i, &[4, 16, 2, 2])?;
    let k = d[0] as usize + 1;
    if d[1] >= (1 << k) {
        return None;
    }
    let names = ["t1", "t2", "t3", "t4"];
    let arms: Vec<(Cond, Vec<Node>, Tr)> = (0..k).map(|j| (Cond::truthy(Expr::var(names[j])), vec![txt(&format!("A{j}"))], Tr::PLAIN)).collect();
    // truth values as booleans, or (d[3]) as nil / non-false values of other kinds
    let data = RV::Obj((0..k).map(|j| {
        let t = (d[1] >> j) & 1 == 1;
        let v = if d[3] == 0 { RV::Bool(t) } else if t { [RV::Int(0), st(""), RV::Arr(vec![]), st("false")][j].clone() } else { RV::Nil };
        (names[j].to_string(), v)
    }).collect());
    let else_ = if d[2] == 1 { Some((vec![txt("ELSE")], Tr::PLAIN)) } else { None };
    Some(Prog { nodes: vec![txt("<"), Node::If { arms, else_, close: Tr::PLAIN }, txt(">")], data })
}

const WHEN_LISTS: [&[i64]; 7] = [&[1], &[2], &[3], &[1, 2], &[2, 3], &[1, 1], &[3, 1]];

/// (iii-b) case/when with 1..4 arms, comma / or lists, duplicates and overlaps
fn case_nth(i: u64) -> Option<Prog> {
    let d = decode(i, &[4, 7, 7, 7, 7, 4, 2, 2, 2])?;
    let k = d[0] as usize + 1;
    for j in k..4 {
        if d[1 + j] != 0 {
            return None;
        }
    }
    let whens: Vec<When> = (0..k)
        .map(|j| When { values: WHEN_LISTS[d[1 + j] as usize].iter().map(|v| Expr::int(*v)).collect(), use_or: d[6] == 1, body: vec![txt(&format!("W{j}"))], t: Tr::PLAIN })
        .collect();
    let else_ = if d[7] == 1 { Some((vec![txt("ELSE")], Tr::PLAIN)) } else { None };
    let target = if d[8] == 0 { Expr::var("t") } else { Expr::int(d[5] as i64 + 1) };
    Some(Prog {
        nodes: vec![txt("<"), Node::Case { target, whens, else_, open: Tr::PLAIN, close: Tr::PLAIN }, txt(">")],
        data: obj(vec![("t", RV::Int(d[5] as i64 + 1))]),
    })
}

/// (iv) all and/or chains of length 1..4 with every operator pattern and truth assignment
fn logic_nth(i: u64) -> Option<Prog> {
    let d = decode(i, &[4, 8, 16, 3])?;
    let n = d[0] as usize + 1;
    if d[1] >= (1 << (n - 1)) || d[2] >= (1 << n) {
        return None;
    }
    let names = ["p", "q", "r", "s"];
    // operator j between atom j and j+1: bit set = `or`
    let mut ors: Vec<Vec<Atom>> = vec![vec![]];
    for j in 0..n {
        // style 2: the last operand is a comparison that cannot be evaluated (undefined name); when
        // the operands before it already decide its group it must not be touched (guard idiom
        // `{% if user and user.age >= 18 %}`); when it is reached the case is not asserted
        let atom = if d[3] == 2 && j + 1 == n && n > 1 {
            Atom::Cmp(Expr::path("undefined_zz", &["age"]), ">=".into(), Expr::int(18))
        } else if d[3] == 0 {
            Atom::Truthy(Expr::var(names[j]))
        } else {
            Atom::Cmp(Expr::var(names[j]), "==".into(), Expr::Lit(Lit::Bool(true)))
        };
        ors.last_mut().unwrap().push(atom);
        if j + 1 < n && (d[1] >> j) & 1 == 1 {
            ors.push(vec![]);
        }
    }
    let data = RV::Obj((0..n).map(|j| (names[j].to_string(), RV::Bool((d[2] >> j) & 1 == 1))).collect());
    Some(Prog {
        nodes: vec![txt("<"), Node::If { arms: vec![(Cond { ors }, vec![txt("T")], Tr::PLAIN)], else_: Some((vec![txt("F")], Tr::PLAIN)), close: Tr::PLAIN }, txt(">")],
        data,
    })
}

/// Bare truthiness of `x.a` where a loop variable x shadows caller data x: the loop item decides,
/// never the shadowed value (items: scalars, nil, objects with a truthy / falsy / missing `a`).
fn shadowed_cases() -> Vec<Prog> {
    let items = RV::Arr(vec![RV::Int(1), obj(vec![("a", RV::Bool(false))]), obj(vec![("b", RV::Int(1))]), st("s"), RV::Nil, obj(vec![("a", RV::Int(0))]), RV::Arr(vec![])]);
    let mut v = Vec::new();
    for outer in [RV::Bool(true), RV::Bool(false), RV::Nil, st("")] {
        for unless in [false, true] {
            let cond = Cond::truthy(Expr::path("x", &["a"]));
            let inner = if unless {
                Node::Unless { cond, body: vec![txt("U")], else_: Some((vec![txt("E")], Tr::PLAIN)), open: Tr::PLAIN, close: Tr::PLAIN }
            } else {
                Node::If { arms: vec![(cond.clone(), vec![txt("T")], Tr::PLAIN), (Cond { ors: vec![vec![Atom::Truthy(Expr::var("x")), Atom::Truthy(Expr::path("x", &["a"]))]] }, vec![txt("t")], Tr::PLAIN)], else_: Some((vec![txt("F")], Tr::PLAIN)), close: Tr::PLAIN }
            };
            let data = obj(vec![("x", obj(vec![("a", outer.clone())])), ("items", items.clone())]);
            v.push(Prog { nodes: vec![Node::For { var: "x".into(), coll: Coll::Expr(Expr::var("items")), limit: None, offset: None, reversed: false, body: vec![inner, txt(",")], else_: None, open: Tr::PLAIN, close: Tr::PLAIN }], data });
        }
    }
    v
}

fn rand_cfg() -> GenCfg {
    GenCfg {
        names: vec!["x", "y", "z"],
        loopvars: vec!["i"],
        depth: 4,
        loops: false,
        tablerow: false,
        interrupts: false,
        cycle: false,
        ifchanged: false,
        raw: false,
        comment: false,
        capture: false,
        counters: false,
        paths: false,
        filters: vec![],
        forloop_refs: false,
        unicode_text: false,
        ..GenCfg::all()
    }
}

fn rand_strategy() -> BoxedStrategy<Prog> {
    let val = || proptest::sample::select(pool());
    (astgen::nodes(&rand_cfg(), 4), val(), val(), val(), val(), any::<bool>())
        .prop_map(|(nodes, x, y, z, i, defined_z)| {
            let mut items = vec![("x", x), ("y", y), ("i", i)];
            if defined_z {
                items.push(("z", z));
            }
            Prog { nodes, data: obj(items) }
        })
        .boxed()
}

pub fn run(ctx: &Ctx) {
    ctx.set_rule("E2: (i) 8 operators x every ordered pair of a 36-value pool (nil, booleans, integers, floats equal to integers, numeric / plain / empty / blank strings, arrays, objects, empty/blank literals), each operand as a literal (where one exists) and through a variable, in if and unless; (ii) bare truthiness of every pool value and of an undefined name in if/unless/elsif; (iii) if/elsif chains of 1..4 arms x all truth assignments (booleans and other truthy/falsy kinds) x else present/absent, case with 1..4 when arms over comma / or lists with duplicate and overlapping values x target position x else; (iv) every and/or operator pattern of length <= 4 x every truth assignment; E1: random nesting. Oracle: reference interpreter (independent core for same-kind scalars, the value model for cross-kind cells). Every generated condition involves a comparison, a chain or several arms, so every case is non-trivial; distinct by (source, data).");
    ctx.assume("undefined names inside comparisons, contains on nil / numbers, and bare empty/blank literals are outside the statement (not compared)");
    let n = pool().len() as u64;
    ctx.exhaustive("operator_pairs", 8 * n * n * 2 * 2 * 2, pairs_nth, oracle);
    ctx.exhaustive("truthiness", (n + 1) * 2 * 3, truth_nth, oracle);
    ctx.exhaustive("if_chains", 4 * 16 * 2 * 2, chain_nth, oracle);
    ctx.exhaustive("case_when", 4 * 7 * 7 * 7 * 7 * 4 * 2 * 2 * 2, case_nth, oracle);
    ctx.exhaustive("and_or", 4 * 8 * 16 * 3, logic_nth, oracle);
    ctx.cases("shadowed_member_truthiness", shadowed_cases(), oracle);
    ctx.random("nested", ctx.pick(300_000, 10_000_000), rand_strategy, oracle);
    let _ = gen::stress_scalars;
}

/// Byte-driven twin of `rand_strategy` (engine E6b, see astdec.rs).
pub fn fuzz_case(d: &mut crate::astdec::Dec) -> Prog {
    let pool = pool();
    let (x, y, z, i) = (d.pick(&pool), d.pick(&pool), d.pick(&pool), d.pick(&pool));
    let defined_z = d.flag();
    let nodes = d.nodes(&rand_cfg(), 4);
    let mut items = vec![("x", x), ("y", y), ("i", i)];
    if defined_z {
        items.push(("z", z));
    }
    Prog { nodes, data: obj(items) }
}
