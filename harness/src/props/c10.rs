//! C10 — a failing output sink produces an error and a clean prefix, never a panic.

use crate::ast::*;
use crate::astgen::{self, GenCfg};
use crate::engine::{guard, Check, Ctx, Failure, Obs};
use crate::interp::{self, PartialDef};
use crate::lq::{self, Policy};
use crate::rv::{obj, st, RV};
use proptest::prelude::*;
use serde::{Deserialize, Serialize};
use serde_json::json;
use std::io::{self, Write};

#[derive(Clone, Debug, Serialize, Deserialize)]
pub struct Case {
    pub template: String,
    pub partials: Vec<(String, String)>,
    pub data: RV,
}

#[derive(Clone, Copy, Debug, PartialEq)]
enum Mode {
    /// never fails, accepts everything
    Clean,
    /// never fails, accepts at most n bytes per call
    Chunked(usize),
    /// call k returns an error
    FailAt(usize, io::ErrorKind),
    /// call k accepts one byte, the next call returns an error
    ShortThenFail(usize),
    /// call k returns Ok(0)
    ZeroAt(usize),
}

struct Sink {
    mode: Mode,
    calls: usize,
    accepted: Vec<u8>,
    /// sizes offered per call
    offered: Vec<usize>,
    failed: bool,
    calls_after_failure: usize,
}

impl Sink {
    fn new(mode: Mode) -> Sink {
        Sink { mode, calls: 0, accepted: Vec::new(), offered: Vec::new(), failed: false, calls_after_failure: 0 }
    }
}

impl Write for Sink {
    fn write(&mut self, buf: &[u8]) -> io::Result<usize> {
        if self.failed {
            self.calls_after_failure += 1;
            return Err(io::Error::new(io::ErrorKind::Other, "sink already failed"));
        }
        self.calls += 1;
        self.offered.push(buf.len());
        let k = self.calls;
        match self.mode {
            Mode::Clean => {
                self.accepted.extend_from_slice(buf);
                Ok(buf.len())
            }
            Mode::Chunked(n) => {
                let m = buf.len().min(n);
                self.accepted.extend_from_slice(&buf[..m]);
                Ok(m)
            }
            Mode::FailAt(at, kind) => {
                if k == at {
                    self.failed = true;
                    Err(io::Error::new(kind, "injected sink failure"))
                } else {
                    self.accepted.extend_from_slice(buf);
                    Ok(buf.len())
                }
            }
            Mode::ShortThenFail(at) => {
                if k == at && !buf.is_empty() {
                    self.accepted.push(buf[0]);
                    Ok(1)
                } else if k > at {
                    self.failed = true;
                    Err(io::Error::new(io::ErrorKind::BrokenPipe, "injected sink failure after short write"))
                } else {
                    self.accepted.extend_from_slice(buf);
                    Ok(buf.len())
                }
            }
            Mode::ZeroAt(at) => {
                if k == at {
                    self.failed = true;
                    Ok(0)
                } else {
                    self.accepted.extend_from_slice(buf);
                    Ok(buf.len())
                }
            }
        }
    }
    fn flush(&mut self) -> io::Result<()> {
        Ok(())
    }
}

pub fn oracle(c: &Case, obs: &mut Obs) -> Check {
    let parser = match lq::parser_with_partials(Policy::Eager, &c.partials) {
        Ok(Ok(p)) => p,
        _ => return Ok(()),
    };
    let tpl = match lq::parse(&parser, &c.template) {
        Ok(Ok(t)) => t,
        Ok(Err(_)) => return Ok(()),
        Err(p) => return Err(Failure::new(format!("sink: parse panics: {}", p.site()), p.what)),
    };
    let globals = c.data.to_object();
    let describe = |what: &str| format!("{what}\n template={:?}\n partials={:?}\n data={}", c.template, c.partials, c.data.dump());
    // fault-free run
    let mut clean = Sink::new(Mode::Clean);
    let r0 = guard(|| tpl.render_to(&mut clean, &globals).map_err(|e| e.to_string()));
    let r0 = match r0 {
        Err(p) => return Err(Failure::new(format!("sink: render_to panics: {}", p.site()), describe(&p.what))),
        Ok(r) => r,
    };
    let s = clean.accepted.clone();
    let w = clean.calls;
    // (v) streamed bytes == buffered render (only when the render succeeds)
    let buffered = lq::render(&tpl, &globals);
    obs.extra_evals += 1;
    match (&r0, &buffered) {
        (Ok(()), Ok(Ok(text))) => {
            if text.as_bytes() != s.as_slice() {
                return Err(Failure::new("sink: bytes streamed to a never-failing sink differ from render()", describe(&format!("render={text:?} streamed={:?}", String::from_utf8_lossy(&s)))));
            }
        }
        (Err(_), Ok(Err(_))) => {}
        (_, Err(p)) => return Err(Failure::new(format!("sink: render panics: {}", p.site()), describe(&p.what))),
        _ => return Err(Failure::new("sink: render() and render_to() disagree on success", describe(&format!("render_to={r0:?} render={}", lq::show(&buffered))))),
    }
    if std::str::from_utf8(&s).is_err() {
        return Err(Failure::new("sink: streamed bytes are not valid UTF-8", describe("")));
    }
    // chunked, never failing
    for n in [1usize, 3] {
        let mut sink = Sink::new(Mode::Chunked(n));
        let r = guard(|| tpl.render_to(&mut sink, &globals).map_err(|e| e.to_string()));
        obs.extra_evals += 1;
        match r {
            Err(p) => return Err(Failure::new(format!("sink: render_to panics: {}", p.site()), describe(&p.what))),
            Ok(r) => {
                if r.is_ok() != r0.is_ok() || sink.accepted != s {
                    return Err(Failure::new("sink: a sink accepting short counts (never failing) receives different bytes", describe(&format!("chunk={n} expected={:?} got={:?} result={r:?}", String::from_utf8_lossy(&s), String::from_utf8_lossy(&sink.accepted)))));
                }
            }
        }
    }
    if r0.is_err() {
        obs.class("template_fails_without_fault");
    }
    // cumulative bytes before each fault-free call
    let mut before = vec![0usize];
    for o in &clean.offered {
        before.push(before.last().unwrap() + o);
    }
    // exhaustive over fault points
    for k in 1..=w {
        let kinds = [io::ErrorKind::Other, io::ErrorKind::BrokenPipe, io::ErrorKind::WriteZero];
        let modes = [Mode::FailAt(k, kinds[k % 3]), Mode::ShortThenFail(k), Mode::ZeroAt(k)];
        for mode in modes {
            if mode == Mode::ShortThenFail(k) && clean.offered[k - 1] == 0 {
                continue;
            }
            let mut sink = Sink::new(mode);
            let r = guard(|| tpl.render_to(&mut sink, &globals).map_err(|e| e.to_string()));
            obs.extra_evals += 1;
            if w >= 3 && k != 1 && k != w {
                obs.nt(&(c.template.as_str(), k, format!("{mode:?}")));
            }
            let r = match r {
                Err(p) => return Err(Failure::new(format!("sink: render_to panics when the sink fails: {}", p.site()), describe(&format!("{mode:?} {}", p.what)))),
                Ok(r) => r,
            };
            let short_single_byte = matches!(mode, Mode::ShortThenFail(_)) && clean.offered[k - 1] == 1;
            // a 1-byte buffer fully accepted at call k: the failure then hits call k+1, which may not exist
            let failure_reached = sink.failed;
            if failure_reached && r.is_ok() {
                return Err(Failure::new("sink: render_to returns Ok although a write failed", describe(&format!("{mode:?} W={w}"))));
            }
            if !failure_reached && !(short_single_byte && k == w) && r0.is_ok() {
                return Err(Failure::new("sink: the injected failure was never reached although the fault-free run makes that call", describe(&format!("{mode:?} W={w} calls={}", sink.calls))));
            }
            if sink.calls_after_failure > 0 {
                return Err(Failure::new("sink: written to again after it reported a failure", describe(&format!("{mode:?} W={w} further_calls={}", sink.calls_after_failure))));
            }
            let expect_len = match mode {
                Mode::ShortThenFail(_) => before[k - 1] + 1,
                _ => before[k - 1],
            };
            if failure_reached && (sink.accepted.len() != expect_len || !s.starts_with(&sink.accepted)) {
                return Err(Failure::new(
                    "sink: bytes accepted before the failure are not the fault-free prefix",
                    describe(&format!("{mode:?} W={w} expected_prefix={:?} accepted={:?}", String::from_utf8_lossy(&s[..expect_len.min(s.len())]), String::from_utf8_lossy(&sink.accepted))),
                ));
            }
        }
    }
    obs.sample_with(|| json!({"template": c.template, "partials": c.partials, "data": c.data.dump(), "write_calls": w, "bytes": s.len()}));
    if w >= 3 {
        obs.class("three_or_more_writes");
    }
    Ok(())
}

fn cfg() -> GenCfg {
    GenCfg {
        names: vec!["x", "y", "z"],
        loopvars: vec!["i", "x"],
        depth: 3,
        layout: false,
        comment: false,
        paths: false,
        case: false,
        capture: true,
        filters: vec![("append", 1), ("upcase", 0)],
        coll_names: vec!["arr", "x"],
        wild_ranges: false,
        ops: vec![],
        include: true,
        render: true,
        partials: vec!["p".into(), "q".into()],
        undefined_pct: 0,
        ..GenCfg::all()
    }
}

fn partial_cfg() -> GenCfg {
    GenCfg { include: false, render: false, partials: vec![], depth: 2, top_level_interrupts: true, ..cfg() }
}

fn strategy() -> BoxedStrategy<Case> {
    (astgen::nodes(&cfg(), 6), astgen::nodes(&partial_cfg(), 4), astgen::nodes(&partial_cfg(), 4), proptest::sample::select(crate::props::c09::data_pool()))
        .prop_filter_map("explosive program", |(main, p, q, data)| {
            let defs = vec![("p".to_string(), PartialDef::Ok(p.clone())), ("q".to_string(), PartialDef::Ok(q.clone()))];
            if !interp::cost_ok(&main, &data, &defs) {
                return None;
            }
            Some(Case { template: print(&main), partials: vec![("p".into(), print(&p)), ("q".into(), print(&q))], data })
        })
        .boxed()
}

fn fixed() -> Vec<Case> {
    let partials = vec![
        ("p".to_string(), "(p{{ k }}{% cycle 'x', 'y' %}{% increment n %})".to_string()),
        ("q".to_string(), "q{% ifchanged %}{{ k }}{% endifchanged %}{% if k == 2 %}{% break %}{% endif %}".to_string()),
        // a name and the same name with the suffix the render tag falls back to
        ("x".to_string(), "[plain {{ k }}{{ k }}]".to_string()),
        ("x.liquid".to_string(), "[ext {{ k }}]".to_string()),
        ("only.liquid".to_string(), "[only {{ k }}]".to_string()),
    ];
    // long non-ASCII values: error paths put them into messages / context
    let long = format!("x{}", "é".repeat(40));
    let data = obj(vec![("arr", RV::Arr(vec![RV::Int(1), RV::Int(2), RV::Int(3)])), ("name", st("Tobi")), ("nothing", RV::Arr(vec![])), ("long", st(&long)), ("longarr", RV::Arr(vec![st(&long), st(&format!("ab{long}"))]))]);
    let t = [
        "plain text only",
        "a{{ name }}b{{ 1 }}c",
        "{% raw %}{{ raw }}{% endraw %}|{% increment n %}{% decrement n %}|{% cycle 'a', 'b' %}{% cycle 'a', 'b' %}",
        "{% for i in arr %}[{{ i }}{% cycle 1, 2 %}{% ifchanged %}{{ i }}{% endifchanged %}]{% endfor %}",
        "{% tablerow i in arr cols:2 %}{{ i }}{% endtablerow %}",
        "{% for i in arr %}{% ifchanged %}x{% if i == 2 %}{% break %}{% endif %}y{% endifchanged %}z{% endfor %}tail",
        "{% for i in arr %}{% include 'p' k: i %}{% render 'q', k: i %}{% endfor %}end",
        "{% capture c %}hidden{% endcapture %}{{ c }}{{ c | upcase }}{% if name %}yes{% else %}no{% endif %}{% unless name %}u{% endunless %}",
        "{% for i in arr %}{% for j in arr %}{{ i }}{{ j }}{% if j == 2 %}{% continue %}{% endif %}-{% endfor %}{% endfor %}",
        "{{ name }}{{ undefined_name }}after",
        // values that print in several writes; an else branch of an empty loop; nested else branches
        "<{{ arr }}|{{ longarr }}|{{ arr | reverse }}>tail",
        "{% for i in nothing %}never{% else %}empty {{ name }} branch{% endfor %}tail{% for i in (1..0) %}x{% else %}{{ arr }}{% endfor %}",
        "{% tablerow i in nothing %}never{% endtablerow %}|{% for i in arr %}{% for j in nothing %}n{% else %}e{{ i }}{% endfor %}{% endfor %}|{% if nothing %}a{% else %}b{{ name }}c{% endif %}{% unless name %}u{% else %}v{{ name }}w{% endunless %}{% case name %}{% when 'x' %}x{% else %}y{{ name }}z{% endcase %}",
        "<{% render 'x', k: 1 %}|{% render 'x.liquid', k: 2 %}|{% render 'only', k: 3 %}|{% include 'x' k: 4 %}>",
        "{% case long %}{% when long %}hit{{ long }}{% else %}miss{% endcase %}{% case name %}{% when 'nope' %}n{% else %}else{{ long }}{% endcase %}",
        "{% if long == long %}same{{ long | upcase }}{% endif %}{% unless long contains 'zz' %}u{{ long | size }}{% endunless %}",
        "{% for i in longarr %}[{{ i }}{% cycle long, 'b' %}]{% endfor %}{% tablerow i in longarr cols:1 %}{{ i }}{% endtablerow %}",
        "{% capture c %}{{ long }}{% endcapture %}{{ c | append: long }}{% assign d = long | prepend: 'é' %}{{ d }}{% ifchanged %}{{ long }}{% endifchanged %}",
        "{% for i in longarr %}{% include 'p' k: i %}{% render 'q', k: i %}{% render 'x' with i as k %}{% endfor %}{% render 'x' for longarr as k %}",
    ];
    let mut v: Vec<Case> = t.iter().map(|s| Case { template: s.to_string(), partials: partials.clone(), data: data.clone() }).collect();
    // outputs beyond any small internal buffer bound: 12 KB in 1200 writes, and 12 KB in one write,
    // each followed (same thread, same template object) by the runs with failing sinks
    let big = "é".repeat(6000);
    v.push(Case { template: "{% for i in (1..1200) %}0123456789{% endfor %}|{{ name }}".into(), partials: partials.clone(), data: data.clone() });
    v.push(Case { template: "{{ big }}|{{ name }}|{{ big | size }}".into(), partials, data: obj(vec![("name", st("Tobi")), ("big", st(&big))]) });
    v
}

pub fn run(ctx: &Ctx) {
    *ctx.level.lock().unwrap() = "fault_enumeration".into();
    ctx.set_rule("For every template (18 hand-written ones, two of them writing 12 KB, covering text, output, raw, cycle, increment/decrement, tablerow, ifchanged with interrupts, include/render in loops, capture, failing reads; E1: generated templates of every writing construct nested in loops and conditionals with partials) the fault-free run through a counting sink yields W write calls and the byte string S; then EVERY k in 1..W is tried in three modes: error at call k (kinds Other / BrokenPipe / WriteZero), one byte accepted at call k then an error at the next call, Ok(0) at call k; plus two never-failing sinks that accept at most 1 / 3 bytes per call. Checked: render_to returns Err once a write failed, the sink is never called again, accepted bytes == the fault-free prefix up to that call, no panic, streamed bytes == render(), UTF-8. evaluations counts engine executions; non-trivial = W >= 3 and 1 < k < W; distinct by (template, k, mode).");
    ctx.assume("ErrorKind::Interrupted is never injected (write_all legitimately retries it)");
    ctx.cases("fixed_templates", fixed(), oracle);
    ctx.random("generated_templates", ctx.pick(25_000, 2_500_000), strategy, oracle);
}
