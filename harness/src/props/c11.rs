//! C11 — value equality and ordering are coherent and construction-independent.

use crate::engine::{Check, Ctx, Failure, Obs};
use crate::gen;
use crate::lq::{self, Conf};
use crate::rv::RV;
use liquid::model::{Date, DateTime, Object, State, Value, ValueCow};
use liquid_core::model::{ValueView, ValueViewCmp};
use proptest::prelude::*;
use serde::{Deserialize, Serialize};
use std::cmp::Ordering;

fn dt(unix: i64, nanos: u32, offset_s: i32) -> Value {
    Value::scalar(crate::props::c17::mk(&crate::props::c17::Ts { unix, nanos, offset: offset_s }))
}

fn object(items: &[(&str, Value)], variant: u8) -> Value {
    let mut o = Object::new();
    let it: Vec<&(&str, Value)> = if variant == 0 { items.iter().collect() } else { items.iter().rev().collect() };
    if variant == 2 {
        // build with a different capacity history: insert junk first, then remove it
        for i in 0..13 {
            o.insert(format!("junk{i}").into(), Value::Nil);
        }
        for i in 0..13 {
            o.remove(format!("junk{i}").as_str());
        }
    }
    for (k, v) in it {
        o.insert((*k).to_string().into(), v.clone());
    }
    Value::Object(o)
}

fn int(i: i64) -> Value {
    Value::scalar(i)
}
fn fl(f: f64) -> Value {
    Value::scalar(f)
}
fn s(x: &str) -> Value {
    Value::scalar(x.to_string())
}
fn arr(v: Vec<Value>) -> Value {
    Value::Array(v)
}

/// The pool; `variant` selects the construction route of containers (0, 1, 2).
pub fn pool(variant: u8) -> Vec<(&'static str, Value)> {
    let six = |last: i64, v: u8| object(&[("k1", int(1)), ("k2", s("two")), ("k3", fl(3.0)), ("k4", Value::Nil), ("k5", arr(vec![int(5)])), ("k6", int(last))], v);
    let v = variant;
    vec![
        ("nil", Value::Nil),
        ("true", Value::scalar(true)),
        ("false", Value::scalar(false)),
        ("0", int(0)),
        ("1", int(1)),
        ("-1", int(-1)),
        ("2", int(2)),
        ("2^53", int(1 << 53)),
        ("i64min", int(i64::MIN)),
        ("i64max", int(i64::MAX)),
        // integers that are not doubles, next to the doubles they round to
        ("2^53+1", int((1 << 53) + 1)),
        ("i64max-1", int(i64::MAX - 1)),
        ("2^62+1", int((1 << 62) + 1)),
        ("2^63f", fl(9223372036854775808.0)),
        ("2^62f", fl(4611686018427387904.0)),
        // the same f32 built through From and through serde (construction variants)
        ("f32 0.1", if variant == 0 { Value::scalar(f64::from(0.1f32)) } else { liquid::model::to_value(&0.1f32).expect("f32 converts") }),
        ("f32 16777217", if variant == 0 { Value::scalar(f64::from(16777217.0f32)) } else { liquid::model::to_value(&16777217.0f32).expect("f32 converts") }),
        ("f32 0.3", if variant == 2 { Value::scalar(f64::from(0.3f32)) } else { liquid::model::to_value(&0.3f32).expect("f32 converts") }),
        ("0.0", fl(0.0)),
        ("-0.0", fl(-0.0)),
        ("0.5", fl(0.5)),
        ("1.0", fl(1.0)),
        ("2.0", fl(2.0)),
        ("2^53f", fl(9007199254740992.0)),
        ("inf", fl(f64::INFINITY)),
        ("-inf", fl(f64::NEG_INFINITY)),
        ("''", s("")),
        ("' '", s(" ")),
        ("'1'", s("1")),
        ("'1.0'", s("1.0")),
        ("'true'", s("true")),
        ("'a'", s("a")),
        ("'A'", s("A")),
        ("'b'", s("b")),
        ("'é'", s("é")),
        ("'2020-01-01'", s("2020-01-01")),
        ("date1", Value::scalar(Date::from_ymd(2020, 1, 1))),
        ("date2", Value::scalar(Date::from_ymd(2020, 1, 2))),
        ("dt_utc", dt(1_577_880_000, 0, 0)),
        ("dt_+0530", dt(1_577_880_000, 0, 19800)),
        ("dt_-0800", dt(1_577_880_000, 0, -28800)),
        ("dt_later", dt(1_577_880_001, 0, 0)),
        ("dt_nanos", dt(1_577_880_000, 5_000_000, 3600)),
        ("dt_midnight", dt(1_577_836_800, 0, 0)),
        // local calendar day differs from the UTC day (date vs date-time comparisons)
        ("dt_jan1_2330_-0500", dt(1_577_939_400, 0, -18000)),
        ("dt_jan1_1000_+1400", dt(1_577_822_400, 0, 50400)),
        ("dt_dec31_1900_-0500", dt(1_577_836_800, 0, -18000)),
        ("empty", Value::State(State::Empty)),
        ("blank", Value::State(State::Blank)),
        ("[]", arr(vec![])),
        ("[nil]", arr(vec![Value::Nil])),
        ("[1]", arr(vec![int(1)])),
        ("[1.0]", arr(vec![fl(1.0)])),
        ("[1,2]", arr(vec![int(1), int(2)])),
        ("[2,1]", arr(vec![int(2), int(1)])),
        ("[1,2,3]", arr(vec![int(1), int(2), int(3)])),
        ("['a']", arr(vec![s("a")])),
        ("[[1]]", arr(vec![arr(vec![int(1)])])),
        ("[[1],[2]]", arr(vec![arr(vec![int(1)]), arr(vec![int(2)])])),
        ("[{}]", arr(vec![object(&[], v)])),
        ("[{a:1}]", arr(vec![object(&[("a", int(1))], v)])),
        ("[{a:1,b:2}]", arr(vec![object(&[("a", int(1)), ("b", int(2))], v)])),
        ("{}", object(&[], v)),
        ("{a:1}", object(&[("a", int(1))], v)),
        ("{a:1.0}", object(&[("a", fl(1.0))], v)),
        ("{a:2}", object(&[("a", int(2))], v)),
        ("{b:1}", object(&[("b", int(1))], v)),
        ("{a:nil}", object(&[("a", Value::Nil)], v)),
        ("{b:nil}", object(&[("b", Value::Nil)], v)),
        ("{a:false}", object(&[("a", Value::scalar(false))], v)),
        ("{a:1,b:2}", object(&[("a", int(1)), ("b", int(2))], v)),
        ("{a:1,b:3}", object(&[("a", int(1)), ("b", int(3))], v)),
        ("{a:2,b:1}", object(&[("a", int(2)), ("b", int(1))], v)),
        ("{a:1,c:2}", object(&[("a", int(1)), ("c", int(2))], v)),
        ("six(6)", six(6, v)),
        ("six(7)", six(7, v)),
        ("{o:{x:[1,2]}}", object(&[("o", object(&[("x", arr(vec![int(1), int(2)])), ("y", s("y"))], v)), ("p", int(0))], v)),
        ("{o:{x:[1,3]}}", object(&[("o", object(&[("x", arr(vec![int(1), int(3)])), ("y", s("y"))], v)), ("p", int(0))], v)),
        ("[six(6),1]", arr(vec![six(6, v), int(1)])),
        ("[six(6),2]", arr(vec![six(6, v), int(2)])),
        ("{a:[{b:1,c:2}]}", object(&[("a", arr(vec![object(&[("b", int(1)), ("c", int(2))], v)]))], v)),
    ]
}

fn is_nan_free(_v: &Value) -> bool {
    true
}

/// everything observable about an ordered pair through the Rust API
#[derive(Debug, Clone, PartialEq, Eq, Hash)]
pub struct Rel {
    pub eq: bool,
    pub cmp: Option<i8>,
}

fn ord(o: Option<Ordering>) -> Option<i8> {
    o.map(|x| match x {
        Ordering::Less => -1,
        Ordering::Equal => 0,
        Ordering::Greater => 1,
    })
}

pub fn rel(a: &Value, b: &Value) -> Rel {
    Rel { eq: a == b, cmp: ord(a.partial_cmp(b)) }
}

fn template_ops(a: &Value, b: &Value) -> Result<String, Failure> {
    let mut g = Object::new();
    g.insert("a".into(), a.clone());
    g.insert("b".into(), b.clone());
    g.insert("arr".into(), Value::Array(vec![a.clone()]));
    g.insert("pair".into(), Value::Array(vec![a.clone(), b.clone()]));
    let src = "{% if a == b %}E{% else %}e{% endif %}{% if a != b %}N{% else %}n{% endif %}{% if a <> b %}N{% else %}n{% endif %}{% if a < b %}L{% else %}l{% endif %}{% if a > b %}G{% else %}g{% endif %}{% if a <= b %}M{% else %}m{% endif %}{% if a >= b %}H{% else %}h{% endif %}{% unless a == b %}U{% else %}u{% endunless %}{% case a %}{% when b %}C{% else %}c{% endcase %}{% if arr contains b %}K{% else %}k{% endif %}{{ pair | uniq | size }}";
    match lq::with_parser(Conf::Stdlib, |p| lq::run(p, src, &g)) {
        Ok(Ok(s)) => Ok(s),
        other => Err(Failure::new("compare: comparison template fails", format!("a={} b={} got={}", crate::rv::from_view(a).dump(), crate::rv::from_view(b).dump(), lq::show(&other)))),
    }
}

fn expected_template(r: &Rel, ba: &Rel) -> String {
    let lt = r.cmp == Some(-1);
    let gt = r.cmp == Some(1);
    let le = matches!(r.cmp, Some(-1) | Some(0));
    let ge = matches!(r.cmp, Some(1) | Some(0));
    let f = |b: bool, t: char, e: char| if b { t } else { e };
    let mut s = String::new();
    s.push(f(r.eq, 'E', 'e'));
    s.push(f(!r.eq, 'N', 'n'));
    s.push(f(!r.eq, 'N', 'n'));
    s.push(f(lt, 'L', 'l'));
    s.push(f(gt, 'G', 'g'));
    s.push(f(le, 'M', 'm'));
    s.push(f(ge, 'H', 'h'));
    s.push(f(!r.eq, 'U', 'u'));
    s.push(f(r.eq, 'C', 'c'));
    // `[a] contains b` compares the element with b
    s.push(f(r.eq, 'K', 'k'));
    // uniq keeps b unless it equals the kept a
    let _ = ba;
    s.push(if r.eq { '1' } else { '2' });
    s
}

fn describe(a: &Value, b: &Value) -> String {
    format!("a={} b={}", crate::rv::from_view(a).dump(), crate::rv::from_view(b).dump())
}

/// All laws for one ordered pair given two independent constructions of each value.
pub fn check_pair(a: &Value, b: &Value, a2: &Value, b2: &Value, with_template: bool) -> Check {
    let ab = rel(a, b);
    let ba = rel(b, a);
    let d = || describe(a, b);
    // reflexive
    if is_nan_free(a) && !(a == a) {
        return Err(Failure::new("compare: equality is not reflexive", d()));
    }
    if a != a2 || a.partial_cmp(a2).map(|o| o != Ordering::Equal).unwrap_or(false) {
        return Err(Failure::new("compare: a value differs from an independently built copy of itself", format!("{} copy={}", d(), crate::rv::from_view(a2).dump())));
    }
    // symmetric
    if ab.eq != ba.eq {
        return Err(Failure::new("compare: equality is not symmetric", format!("{} a==b:{} b==a:{}", d(), ab.eq, ba.eq)));
    }
    // duality of < and >
    let dual = match (ab.cmp, ba.cmp) {
        (Some(x), Some(y)) => x == -y,
        (None, None) => true,
        _ => false,
    };
    if !dual {
        return Err(Failure::new("compare: a<b and b>a disagree", format!("{} cmp(a,b)={:?} cmp(b,a)={:?}", d(), ab.cmp, ba.cmp)));
    }
    // equal values are never strictly ordered
    if ab.eq && matches!(ab.cmp, Some(-1) | Some(1)) {
        return Err(Failure::new("compare: equal values are strictly ordered", format!("{} cmp={:?}", d(), ab.cmp)));
    }
    // operators of the Rust API agree with partial_cmp
    let (lt, le, gt, ge) = (a < b, a <= b, a > b, a >= b);
    if lt != (ab.cmp == Some(-1)) || gt != (ab.cmp == Some(1)) || le != matches!(ab.cmp, Some(-1) | Some(0)) || ge != matches!(ab.cmp, Some(1) | Some(0)) {
        return Err(Failure::new("compare: < <= > >= disagree with partial_cmp", format!("{} cmp={:?} lt={lt} le={le} gt={gt} ge={ge}", d(), ab.cmp)));
    }
    // ordered => (<= iff < or ==)
    if ab.cmp.is_some() && (le != (lt || ab.eq) || ge != (gt || ab.eq)) {
        return Err(Failure::new("compare: <= / >= do not hold exactly when < / > or equality does", format!("{} cmp={:?} eq={}", d(), ab.cmp, ab.eq)));
    }
    // other API forms
    let (ca, cb) = (ValueCow::Owned(a.clone()), ValueCow::Borrowed(b));
    let vc = (ValueViewCmp::new(a.as_view()), ValueViewCmp::new(b.as_view()));
    let forms = [("ValueCow Owned==Borrowed", ca == cb), ("ValueCow Borrowed==Owned", ValueCow::Borrowed(a) == ValueCow::Owned(b.clone())), ("ValueViewCmp ==", vc.0 == vc.1), ("ValueCow == Value", ca == *b), ("Value == ValueViewCmp", *a == vc.1)];
    for (name, got) in forms {
        if got != ab.eq {
            return Err(Failure::new(format!("compare: {name} disagrees with Value =="), format!("{} Value=={} {name}={got}", d(), ab.eq)));
        }
    }
    if ord(vc.0.partial_cmp(&vc.1)) != ab.cmp {
        return Err(Failure::new("compare: ValueViewCmp::partial_cmp disagrees with Value::partial_cmp", d()));
    }
    // typed comparisons
    if let Some(sc) = b.as_scalar() {
        let typed = match b.type_name() {
            "whole number" => sc.to_integer().map(|n| *a == n),
            "fractional number" => sc.to_float().map(|x| *a == x),
            "boolean" => sc.to_bool().map(|x| *a == x),
            "string" => Some(*a == sc.to_kstr().as_str()),
            _ => None,
        };
        if let Some(t) = typed {
            if t != ab.eq {
                return Err(Failure::new("compare: typed PartialEq disagrees with Value ==", format!("{} typed={t} value=={}", d(), ab.eq)));
            }
        }
    }
    // construction independence
    for (x, y, what) in [(a2, b2, "both rebuilt"), (a, b2, "right rebuilt"), (a2, b, "left rebuilt")] {
        let r = rel(x, y);
        if r != ab {
            return Err(Failure::new("compare: outcome depends on how the values were built", format!("{} ({what}) original={ab:?} rebuilt={r:?}", d())));
        }
    }
    // templates
    if with_template {
        let got = template_ops(a, b)?;
        let want = expected_template(&ab, &ba);
        if got != want {
            return Err(Failure::new("compare: a template takes a different branch than the Rust API", format!("{} api={ab:?} template={got} expected={want}", d())));
        }
        let got2 = template_ops(a2, b2)?;
        if got2 != got {
            return Err(Failure::new("compare: template outcome depends on how the values were built", format!("{} first={got} rebuilt={got2}", d())));
        }
    }
    Ok(())
}

#[derive(Clone, Debug, Serialize, Deserialize)]
pub struct PoolPair {
    pub i: usize,
    pub j: usize,
    /// construction variants of the rebuilt copies
    pub v: u8,
}

fn pool_oracle(c: &PoolPair, obs: &mut Obs) -> Check {
    let p0 = pool(0);
    let p1 = pool(1 + c.v % 2);
    let (a, b) = (&p0[c.i].1, &p0[c.j].1);
    let cross = a.type_name() != b.type_name() || a.is_array() || a.is_object() || b.is_array() || b.is_object();
    if cross {
        obs.nt(&(c.i, c.j, c.v));
    }
    // int/float law
    if let (Some(x), Some(y)) = (a.as_scalar(), b.as_scalar()) {
        if a.type_name() == "whole number" && b.type_name() == "fractional number" {
            if let (Some(n), Some(f)) = (x.to_integer(), y.to_float()) {
                if n.unsigned_abs() <= 1 << 53 && (n as f64) == f && a != b {
                    return Err(Failure::new("compare: an integer and the float denoting the same number are not equal", describe(a, b)));
                }
            }
        }
    }
    check_pair(a, b, &p1[c.i].1, &p1[c.j].1, true).map_err(|f| Failure::new(f.sig, format!("[{} vs {}] {}", p0[c.i].0, p0[c.j].0, f.detail)))
}

/// digest of the whole pair matrix (eq, cmp) for the cross-process comparison
pub fn matrix_digest() -> String {
    let p0 = pool(0);
    let p1 = pool(2);
    let mut s = String::new();
    for (_, a) in &p0 {
        for (_, b) in &p1 {
            let r = rel(a, b);
            s.push(if r.eq { '=' } else { '.' });
            s.push(match r.cmp {
                Some(-1) => '<',
                Some(0) => '0',
                Some(1) => '>',
                _ => '?',
            });
        }
    }
    s
}

#[derive(Clone, Debug, Serialize, Deserialize)]
pub struct RandPair {
    pub a: RV,
    pub b: RV,
}

fn reversed(v: &RV) -> RV {
    match v {
        RV::Obj(o) => RV::Obj(o.iter().rev().map(|(k, v)| (k.clone(), reversed(v))).collect()),
        RV::Arr(a) => RV::Arr(a.iter().map(reversed).collect()),
        o => o.clone(),
    }
}

fn rand_oracle(c: &RandPair, obs: &mut Obs) -> Check {
    if c.a.kind() != c.b.kind() || !c.a.is_scalar() {
        obs.nt(&(c.a.dump(), c.b.dump()));
    }
    let has_nan = |v: &RV| v.dump().contains("NaN");
    if has_nan(&c.a) || has_nan(&c.b) {
        return Ok(());
    }
    let (a, b) = (c.a.to_value(), c.b.to_value());
    let (a2, b2) = (reversed(&c.a).to_value(), reversed(&c.b).to_value());
    check_pair(&a, &b, &a2, &b2, false)
}

pub fn run(ctx: &Ctx) {
    ctx.set_rule("E2: every ordered pair of an 81-value pool (nil, booleans, integers incl. 2^53 and the i64 bounds, floats incl. +-0.0, 2^53, infinities, strings empty / blank / numeric-looking / 'true' / mixed case / non-ASCII / date-looking, dates, date-times denoting one instant in three offsets, empty/blank markers, arrays and objects nested two deep, two-key and six-key objects) with every container built independently three ways (insertion order, reverse order, after a different capacity history); each pair is compared through Value ==/partial_cmp/< <= > >=, ValueCow (Owned x Borrowed), ValueViewCmp, typed PartialEq, and through templates (== != <> < > <= >=, unless, case/when, contains, uniq); the whole pair matrix is recomputed in 4 fresh processes (different hash seeds) and must be identical. E1: random pairs of recursive values and their rebuilt copies. Oracle: the coherence laws of the statement. Non-trivial = cross-kind pair or a container; distinct by pair.");
    ctx.assume("NaN is excluded (statement); transitivity is not claimed");
    let n = pool(0).len() as u64;
    ctx.exhaustive("pool_pairs", n * n * 2, move |i| Some(PoolPair { i: (i / 2 / n) as usize, j: (i / 2 % n) as usize, v: (i % 2) as u8 }), pool_oracle);
    // cross-process construction independence
    if ctx.replay.is_none() && std::env::var("VERIF_ONLY").is_err() {
        let mine = matrix_digest();
        let exe = std::env::current_exe().expect("exe");
        for k in 0..4 {
            match std::process::Command::new(&exe).arg("c11-digest").output() {
                Ok(out) if out.status.success() => {
                    let theirs = String::from_utf8_lossy(&out.stdout).trim().to_string();
                    if theirs != mine {
                        let pos = mine.chars().zip(theirs.chars()).position(|(a, b)| a != b).unwrap_or(0) / 2;
                        let p = pool(0);
                        let (i, j) = (pos / p.len(), pos % p.len());
                        ctx.cases("cross_process", vec![PoolPair { i, j, v: 0 }], |c, _| {
                            Err(Failure::new("compare: outcome differs between processes", format!("pair [{} vs {}] compares differently in a fresh process", pool(0)[c.i].0, pool(0)[c.j].0)))
                        });
                        break;
                    }
                }
                other => ctx.inconclusive.lock().unwrap().push(format!("cross-process run {k} failed: {other:?}")),
            }
        }
        ctx.note("cross_process_matrix_runs", serde_json::json!(4));
    }
    ctx.random("random_pairs", ctx.pick(500_000, 40_000_000), || {
        (gen::value_rv(3, 8), gen::value_rv(3, 8), any::<bool>()).prop_map(|(a, b, same)| if same { RandPair { a: a.clone(), b: reversed(&a) } } else { RandPair { a, b } })
    }, rand_oracle);
}
