//! C13 — string filters compute their documented function on every string.

use crate::engine::{decode, Check, Ctx, Failure, Obs};
use crate::gen;
use crate::lq::{self, Conf};
use crate::rv::{st, RV};
use proptest::prelude::*;
use serde::{Deserialize, Serialize};
use serde_json::json;
use unicode_segmentation::UnicodeSegmentation;

pub const ALPHA: [&str; 10] = ["a", "B", " ", "\n", "\t", ",", "<", "é", "\u{301}", "😀"];

#[derive(Clone, Debug, Serialize, Deserialize)]
pub struct Case {
    pub filter: String,
    pub input: RV,
    pub args: Vec<RV>,
}

/// all strings of length <= max over ALPHA, indexed: returns (count, nth)
fn strings_upto(max: usize) -> u64 {
    (0..=max).map(|l| 10u64.pow(l as u32)).sum()
}
fn nth_string(mut i: u64, max: usize) -> Option<String> {
    for l in 0..=max {
        let n = 10u64.pow(l as u32);
        if i < n {
            let mut s = String::new();
            for _ in 0..l {
                s.push_str(ALPHA[(i % 10) as usize]);
                i /= 10;
            }
            return Some(s);
        }
        i -= n;
    }
    None
}

#[derive(Debug, Clone, PartialEq)]
pub enum Exp {
    /// result must be one of these values
    AnyOf(Vec<RV>),
    /// the statement does not pin this cell (only: must not crash)
    Unasserted,
}

fn one(s: String) -> Exp {
    Exp::AnyOf(vec![RV::Str(s)])
}

fn chars(s: &str) -> Vec<char> {
    s.chars().collect()
}

/// all non-overlapping occurrences left to right
fn ref_replace(s: &str, search: &str, repl: &str, first_only: bool) -> String {
    let (sc, pc) = (chars(s), chars(search));
    let mut out = String::new();
    let mut i = 0;
    let mut done = false;
    while i < sc.len() {
        if !done && i + pc.len() <= sc.len() && sc[i..i + pc.len()] == pc[..] {
            out.push_str(repl);
            i += pc.len();
            if first_only {
                done = true;
            }
        } else {
            out.push(sc[i]);
            i += 1;
        }
    }
    out
}

fn ref_split(s: &str, sep: &str) -> Vec<String> {
    if s.is_empty() {
        return vec![];
    }
    let (sc, pc) = (chars(s), chars(sep));
    let mut out = Vec::new();
    let mut cur = String::new();
    let mut i = 0;
    while i < sc.len() {
        if i + pc.len() <= sc.len() && sc[i..i + pc.len()] == pc[..] {
            out.push(std::mem::take(&mut cur));
            i += pc.len();
        } else {
            cur.push(sc[i]);
            i += 1;
        }
    }
    out.push(cur);
    out
}

fn is_ascii_ws(c: char) -> bool {
    matches!(c, ' ' | '\t' | '\n' | '\r' | '\u{b}' | '\u{c}')
}

fn graphemes(s: &str) -> Vec<&str> {
    UnicodeSegmentation::graphemes(s, true).collect()
}

fn truncate_chars(s: &str, n: usize, e: &str) -> String {
    let sc = chars(s);
    if sc.len() <= n {
        return s.to_string();
    }
    let keep = n.saturating_sub(e.chars().count());
    sc[..keep.min(sc.len())].iter().collect::<String>() + e
}
fn truncate_graphemes(s: &str, n: usize, e: &str) -> String {
    let g = graphemes(s);
    if g.len() <= n {
        return s.to_string();
    }
    let keep = n.saturating_sub(graphemes(e).len());
    g[..keep.min(g.len())].concat() + e
}
/// what the engine computes today (known finding): lengths compared in bytes, cut in graphemes
fn truncate_bytes_variant(s: &str, n: usize, e: &str) -> String {
    if s.len() <= n {
        return s.to_string();
    }
    let keep = n.saturating_sub(e.len());
    let g = graphemes(s);
    g[..keep.min(g.len())].concat() + e
}

fn as_str(v: &RV) -> Option<&str> {
    if let RV::Str(s) = v { Some(s) } else { None }
}
fn as_int(v: &RV) -> Option<i64> {
    if let RV::Int(i) = v { Some(*i) } else { None }
}

/// Reference semantics for a filter applied to a *string* input.
pub fn reference(filter: &str, s: &str, args: &[RV]) -> Exp {
    let a0 = args.first();
    let a1 = args.get(1);
    match filter {
        "append" => a0.and_then(as_str).map(|a| one(format!("{s}{a}"))).unwrap_or(Exp::Unasserted),
        "prepend" => a0.and_then(as_str).map(|a| one(format!("{a}{s}"))).unwrap_or(Exp::Unasserted),
        "upcase" => one(s.to_uppercase()),
        // "makes each character lowercase": the string-level mapping (final sigma rule) and the
        // character-by-character mapping are both that
        "downcase" => Exp::AnyOf(vec![st(&s.to_lowercase()), st(&s.chars().flat_map(char::to_lowercase).collect::<String>())]),
        "capitalize" => {
            let mut c = s.chars();
            one(match c.next() {
                Some(f) => f.to_uppercase().chain(c).collect(),
                None => String::new(),
            })
        }
        "strip" => Exp::AnyOf(vec![st(s.trim()), st(s.trim_matches(is_ascii_ws))]),
        "lstrip" => Exp::AnyOf(vec![st(s.trim_start()), st(s.trim_start_matches(is_ascii_ws))]),
        "rstrip" => Exp::AnyOf(vec![st(s.trim_end()), st(s.trim_end_matches(is_ascii_ws))]),
        "strip_newlines" => one(s.chars().filter(|c| *c != '\n' && *c != '\r').collect()),
        "replace" | "replace_first" => match (a0.and_then(as_str), a1.and_then(as_str)) {
            (Some(""), _) => Exp::Unasserted,
            (Some(search), Some(repl)) => one(ref_replace(s, search, repl, filter == "replace_first")),
            (Some(search), None) if a1.is_none() => one(ref_replace(s, search, "", filter == "replace_first")),
            _ => Exp::Unasserted,
        },
        "remove" | "remove_first" => match a0.and_then(as_str) {
            Some("") | None => Exp::Unasserted,
            Some(search) => one(ref_replace(s, search, "", filter == "remove_first")),
        },
        "split" => match a0.and_then(as_str) {
            Some("") | None => Exp::Unasserted,
            Some(sep) => Exp::AnyOf(vec![RV::Arr(ref_split(s, sep).into_iter().map(RV::Str).collect())]),
        },
        "size" => Exp::AnyOf(vec![RV::Int(s.chars().count() as i64)]),
        "first" => one(s.chars().next().map(|c| c.to_string()).unwrap_or_default()),
        "last" => one(s.chars().last().map(|c| c.to_string()).unwrap_or_default()),
        "newline_to_br" => one(s.replace('\n', "<br />\n")),
        "default" => match a0 {
            Some(d) => Exp::AnyOf(vec![if s.is_empty() { d.clone() } else { st(s) }]),
            None => Exp::Unasserted,
        },
        "slice" => {
            let Some(o) = a0.and_then(as_int) else { return Exp::Unasserted };
            let l = match a1 {
                None => 1,
                Some(v) => match as_int(v) {
                    Some(l) => l,
                    None => return Exp::Unasserted,
                },
            };
            if l < 1 {
                return Exp::Unasserted;
            }
            let sc = chars(s);
            let n = sc.len() as i64;
            let start = if o < 0 { o + n } else { o };
            if start < 0 || start >= n {
                return one(String::new());
            }
            let end = (start + l).min(n);
            one(sc[start as usize..end as usize].iter().collect())
        }
        "truncate" => {
            let n = match a0 {
                None => 50,
                Some(v) => match as_int(v) {
                    Some(n) if n >= 0 => n as usize,
                    _ => return Exp::Unasserted,
                },
            };
            let e = match a1 {
                None => "...",
                Some(v) => match as_str(v) {
                    Some(e) => e,
                    None => return Exp::Unasserted,
                },
            };
            Exp::AnyOf(vec![st(&truncate_chars(s, n, e)), st(&truncate_graphemes(s, n, e))])
        }
        "truncatewords" => {
            let n = match a0 {
                None => 50,
                Some(v) => match as_int(v) {
                    Some(n) if n >= 1 => n as usize,
                    _ => return Exp::Unasserted,
                },
            };
            let e = match a1 {
                None => "...",
                Some(v) => match as_str(v) {
                    Some(e) => e,
                    None => return Exp::Unasserted,
                },
            };
            // only single-space separated, non-empty words without other whitespace
            let words: Vec<&str> = s.split(' ').collect();
            if s.is_empty() || words.iter().any(|w| w.is_empty() || w.chars().any(char::is_whitespace)) {
                return Exp::Unasserted;
            }
            if n < words.len() {
                one(words[..n].join(" ") + e)
            } else {
                one(s.to_string())
            }
        }
        _ => Exp::Unasserted,
    }
}

fn show(r: &lq::R<RV>) -> String {
    match r {
        Ok(Ok(v)) => format!("Ok({})", v.dump()),
        Ok(Err(e)) => format!("Err({:?})", e.lines().next().unwrap_or("")),
        Err(p) => format!("PANIC({})", p.what),
    }
}

fn nontrivial(c: &Case) -> bool {
    let s = match &c.input {
        RV::Str(s) => s.as_str(),
        _ => return true,
    };
    let special = s.chars().any(|ch| !ch.is_ascii() || ch.is_whitespace());
    let n = s.chars().count() as i64;
    let boundary = c.args.iter().any(|a| matches!(a, RV::Int(i) if *i <= 0 || *i >= n));
    special || boundary
}

pub fn oracle(c: &Case, obs: &mut Obs) -> Check {
    if nontrivial(c) {
        obs.nt(&(c.filter.as_str(), c.input.dump(), c.args.iter().map(|a| a.dump()).collect::<Vec<_>>()));
    }
    let got = lq::apply(Conf::Stdlib, &c.filter, &c.input, &c.args);
    obs.sample_with(|| json!({"filter": c.filter, "input": c.input.dump(), "args": c.args.iter().map(|a| a.dump()).collect::<Vec<_>>(), "got": show(&got)}));
    if let Err(p) = &got {
        return Err(Failure::new(format!("{}: panics: {}", c.filter, p.site()), format!("input={} args={:?} {}", c.input.dump(), c.args, p.what)));
    }
    let RV::Str(s) = &c.input else { return Ok(()) };
    let exp = reference(&c.filter, s, &c.args);
    // laws that hold on all inputs
    if c.filter == "slice" {
        if let (Some(RV::Int(_)), Ok(Ok(RV::Str(g)))) = (c.args.first(), &got) {
            let l = c.args.get(1).and_then(as_int).unwrap_or(1);
            let gc = g.chars().count() as i64;
            if gc > l.max(0) || !s.contains(g.as_str()) {
                return Err(Failure::new("slice: result is not a contiguous piece of at most the requested length", format!("input={s:?} args={:?} got={g:?}", c.args)));
            }
        }
    }
    match exp {
        Exp::Unasserted => {
            obs.class("unasserted");
            Ok(())
        }
        Exp::AnyOf(alts) => match &got {
            Ok(Ok(v)) if alts.iter().any(|a| a == v) => Ok(()),
            _ => {
                let mut sig = format!("{}: result differs from the documented function", c.filter);
                if c.filter == "truncate" {
                    let n = c.args.first().and_then(as_int).unwrap_or(50).max(0) as usize;
                    let e = c.args.get(1).and_then(as_str).unwrap_or("...");
                    if matches!(&got, Ok(Ok(RV::Str(g))) if *g == truncate_bytes_variant(s, n, e)) && (!s.is_ascii() || !e.is_ascii()) {
                        sig = "truncate: lengths of non-ASCII input/ellipsis compared in bytes".into();
                    }
                }
                Err(Failure::new(sig, format!("input={s:?} args={:?} expected one of {:?} got {}", c.args.iter().map(|a| a.dump()).collect::<Vec<_>>(), alts.iter().map(|a| a.dump()).collect::<Vec<_>>(), show(&got))))
            }
        },
    }
}

// ---- laws needing several engine calls

#[derive(Clone, Debug, Serialize, Deserialize)]
pub struct Law {
    pub law: String,
    pub s: String,
    pub a: String,
    pub n: i64,
}

fn app(filter: &str, input: &RV, args: &[RV]) -> lq::R<RV> {
    lq::apply(Conf::Stdlib, filter, input, args)
}

fn law_oracle(c: &Law, obs: &mut Obs) -> Check {
    if c.s.chars().any(|ch| !ch.is_ascii() || ch.is_whitespace()) {
        obs.nt(&(c.law.as_str(), c.s.as_str(), c.a.as_str(), c.n));
    }
    let s = st(&c.s);
    match c.law.as_str() {
        "split_join" => {
            if c.a.is_empty() {
                return Ok(());
            }
            let sep = st(&c.a);
            let parts = app("split", &s, std::slice::from_ref(&sep));
            let back = match &parts {
                Ok(Ok(p)) => app("join", p, std::slice::from_ref(&sep)),
                _ => return Err(Failure::new("split: fails on a string", format!("s={:?} sep={:?} got {}", c.s, c.a, show(&parts)))),
            };
            obs.extra_evals += 1;
            match &back {
                Ok(Ok(RV::Str(b))) if *b == c.s => Ok(()),
                _ => Err(Failure::new("split|join on the same separator is not the identity", format!("s={:?} sep={:?} parts={} joined={}", c.s, c.a, show(&parts), show(&back)))),
            }
        }
        "strip_lr" => {
            let a = app("strip", &s, &[]);
            let r = app("rstrip", &s, &[]);
            let b = match &r {
                Ok(Ok(v)) => app("lstrip", v, &[]),
                _ => return Err(Failure::new("rstrip: fails on a string", show(&r))),
            };
            obs.extra_evals += 2;
            match (&a, &b) {
                (Ok(Ok(x)), Ok(Ok(y))) if x == y => Ok(()),
                _ => Err(Failure::new("strip differs from lstrip after rstrip", format!("s={:?} strip={} lstrip(rstrip)={}", c.s, show(&a), show(&b)))),
            }
        }
        "truncate_len" => {
            if c.n < 0 {
                return Ok(());
            }
            let got = app("truncate", &s, &[RV::Int(c.n), st(&c.a)]);
            let Ok(Ok(RV::Str(g))) = &got else { return Err(Failure::new("truncate: fails on a string", format!("s={:?} n={} e={:?} {}", c.s, c.n, c.a, show(&got)))) };
            let n = c.n as usize;
            let lim_c = n.max(c.a.chars().count());
            let lim_g = n.max(graphemes(&c.a).len());
            let shape_ok = *g == c.s || (g.ends_with(c.a.as_str()) && c.s.starts_with(&g[..g.len() - c.a.len()]));
            let len_ok = g.chars().count() <= lim_c || graphemes(g).len() <= lim_g;
            if shape_ok && len_ok {
                Ok(())
            } else {
                let sig = if *g == truncate_bytes_variant(&c.s, n, &c.a) && (!c.s.is_ascii() || !c.a.is_ascii()) {
                    "truncate: lengths of non-ASCII input/ellipsis compared in bytes"
                } else {
                    "truncate: result longer than max(limit, ellipsis) or not prefix+ellipsis"
                };
                Err(Failure::new(sig, format!("s={:?} n={} e={:?} got={g:?}", c.s, c.n, c.a)))
            }
        }
        "size_append" => {
            let sa = app("size", &s, &[]);
            let sb = app("size", &st(&c.a), &[]);
            let ab = app("append", &s, &[st(&c.a)]);
            let sab = match &ab {
                Ok(Ok(v)) => app("size", v, &[]),
                _ => return Err(Failure::new("append: fails on strings", show(&ab))),
            };
            obs.extra_evals += 3;
            match (&sa, &sb, &sab) {
                (Ok(Ok(RV::Int(x))), Ok(Ok(RV::Int(y))), Ok(Ok(RV::Int(z)))) if x + y == *z => Ok(()),
                _ => Err(Failure::new("size(append(a,b)) != size(a)+size(b)", format!("a={:?} b={:?} {} {} {}", c.s, c.a, show(&sa), show(&sb), show(&sab)))),
            }
        }
        _ => Ok(()),
    }
}

// ---- chains

#[derive(Clone, Debug, Serialize, Deserialize)]
pub struct Chain {
    pub input: String,
    pub chain: Vec<(String, Vec<RV>)>,
}

fn chain_oracle(c: &Chain, obs: &mut Obs) -> Check {
    if c.chain.len() >= 2 {
        obs.nt(&(c.input.as_str(), format!("{:?}", c.chain)));
    }
    // engine: whole chain in one template
    let whole = lq::apply_chain(Conf::Stdlib, &c.chain, &st(&c.input));
    // engine: one filter at a time, left to right
    let mut step: lq::R<RV> = Ok(Ok(st(&c.input)));
    // reference composition (as far as every intermediate is a string with asserted semantics)
    let mut refv: Option<RV> = Some(st(&c.input));
    for (name, args) in &c.chain {
        step = match step {
            Ok(Ok(v)) => app(name, &v, args),
            other => other,
        };
        obs.extra_evals += 1;
        refv = match refv {
            Some(RV::Str(s)) => match reference(name, &s, args) {
                Exp::AnyOf(alts) if alts.len() == 1 => Some(alts[0].clone()),
                _ => None,
            },
            _ => None,
        };
    }
    if let Err(p) = &whole {
        return Err(Failure::new(format!("chain: panics: {}", p.site()), format!("{c:?} {}", p.what)));
    }
    let same = match (&whole, &step) {
        (Ok(Ok(a)), Ok(Ok(b))) => a == b,
        (Ok(Err(_)), Ok(Err(_))) => true,
        _ => false,
    };
    if !same {
        return Err(Failure::new("chain: f|g|h in one tag differs from applying f, g, h one at a time", format!("{c:?}\n whole={}\n stepwise={}", show(&whole), show(&step))));
    }
    if let Some(r) = refv {
        obs.class("chain_with_reference");
        if !matches!(&whole, Ok(Ok(v)) if *v == r) {
            return Err(Failure::new("chain: result differs from the left-to-right composition of the documented functions", format!("{c:?}\n expected={}\n got={}", r.dump(), show(&whole))));
        }
    }
    Ok(())
}

// ---- enumerations

const F0: [&str; 11] = ["upcase", "downcase", "capitalize", "strip", "lstrip", "rstrip", "strip_newlines", "size", "first", "last", "newline_to_br"];
const F1S: [&str; 6] = ["append", "prepend", "remove", "remove_first", "split", "default"];
const F2S: [&str; 2] = ["replace", "replace_first"];

#[derive(Clone, Debug, Serialize, Deserialize)]
pub struct LitArg {
    pub src: String,
    pub input: String,
    pub expected: String,
}

fn ints() -> Vec<i64> {
    (-6..=8).collect()
}

pub fn run(ctx: &Ctx) {
    ctx.set_rule("E2: all strings of length <= 3 (thorough 4) over {a,B,space,LF,tab,',','<',e-acute,U+0301,emoji} as input, all strings of length <= 2 over the same alphabet and all integers in [-6,8] as arguments, for each of the 26 string filters; all strings of length <= 3 over a second alphabet of characters whose case mappings change length or depend on context {a, Σ, σ, ß, İ, ı, ǆ, ﬁ, space, ŉ} for 15 case / measuring / cutting filter applications; laws split|join, strip = lstrip.rstrip, truncate length bound, size(append); E1: random strings <= 200 chars and chains of 1..4 filters (one tag vs. stepwise vs. reference composition). Oracle: independent reference implementations over Vec<char> plus the algebraic laws; `truncate` accepted in either unit (chars or grapheme clusters). Non-trivial = input has a non-ASCII or whitespace symbol, or an integer argument at a boundary (<= 0 or >= length); distinct by (filter, input, args).");
    ctx.assume("unasserted cells (empty search/separator, truncatewords on irregular whitespace, slice length < 1) are exercised for crashes only");
    // characters whose case mappings change their length or depend on context, for every filter
    // that maps case, measures or cuts: all strings of length <= 3 over this second alphabet
    {
        const CASE_ALPHA: [&str; 10] = ["a", "Σ", "σ", "ß", "İ", "ı", "ǆ", "ﬁ", " ", "ŉ"];
        let filters: Vec<(&str, Vec<RV>)> = vec![
            ("upcase", vec![]), ("downcase", vec![]), ("capitalize", vec![]), ("size", vec![]), ("first", vec![]), ("last", vec![]),
            ("slice", vec![RV::Int(0), RV::Int(2)]), ("slice", vec![RV::Int(-1)]), ("slice", vec![RV::Int(1), RV::Int(5)]), ("truncate", vec![RV::Int(2), st("")]),
            ("append", vec![st("ß")]), ("prepend", vec![st("İ")]), ("remove", vec![st("σ")]), ("replace", vec![st("ß"), st("ss")]), ("split", vec![st("ı")]),
        ];
        let nf = filters.len() as u64;
        let n3 = 1 + 10 + 100 + 1000u64;
        let filters = &filters;
        ctx.exhaustive("case_mapping_alphabet", nf * n3, move |i| {
            let d = decode(i, &[nf, n3])?;
            let mut k = d[1];
            let mut len = 0;
            let mut span = 1u64;
            while k >= span {
                k -= span;
                span *= 10;
                len += 1;
            }
            let mut s = String::new();
            for _ in 0..len {
                s.push_str(CASE_ALPHA[(k % 10) as usize]);
                k /= 10;
            }
            let (f, args) = &filters[d[0] as usize];
            Some(Case { filter: f.to_string(), input: st(&s), args: args.clone() })
        }, oracle);
    }
    // arguments written as template literals whose content is / begins / ends with the other quote
    {
        let mut v = Vec::new();
        for (q, o) in [('\'', '"'), ('"', '\'')] {
            let input = format!("x{o}y{o}");
            for (chain, expected) in [
                (format!("remove: {q}{o}{q}"), "xy".to_string()),
                (format!("replace: {q}{o}{q}, {q}_{q}"), "x_y_".to_string()),
                (format!("split: {q}{o}{q} | join: {q}-{q}"), "x-y".to_string()),
                (format!("append: {q}{o}{q}"), format!("{input}{o}")),
                (format!("prepend: {q}{o}a{q}"), format!("{o}a{input}")),
                (format!("remove_first: {q}y{o}{q}"), format!("x{o}")),
                (format!("default: {q}{o}{q}"), input.clone()),
                (format!("append: {q}{o}{o}{q} | size"), "6".to_string()),
            ] {
                // (split: no separator at the end of the input, trailing empty pieces are not the point here)
                let input = if chain.starts_with("split") { format!("x{o}y") } else { input.clone() };
                v.push(LitArg { src: format!("{{{{ v | {chain} }}}}"), input, expected });
            }
        }
        ctx.cases("literal_arguments", v, |c: &LitArg, obs: &mut Obs| {
            obs.nt(&c.src);
            let got = lq::with_parser(Conf::Stdlib, |p| lq::run_rv(p, &c.src, &crate::rv::obj(vec![("v", st(&c.input))])));
            match &got {
                Ok(Ok(s)) if *s == c.expected => Ok(()),
                other => Err(Failure::new("literal argument: a string literal holding the other quote character is not passed to the filter as written", format!("src={:?} v={:?} expected={:?} got={}", c.src, c.input, c.expected, lq::show(other)))),
            }
        });
    }
    let maxlen = ctx.pick(3, 4);
    let ns = strings_upto(maxlen);
    let na = strings_upto(2);
    let na1 = strings_upto(1);
    let iv = ints();
    let ni = iv.len() as u64;

    ctx.exhaustive(
        "arity0",
        11 * ns,
        |i| {
            let d = decode(i, &[11, ns])?;
            Some(Case { filter: F0[d[0] as usize].into(), input: st(&nth_string(d[1], maxlen)?), args: vec![] })
        },
        oracle,
    );
    ctx.exhaustive(
        "arity1_str",
        6 * ns * na,
        |i| {
            let d = decode(i, &[6, ns, na])?;
            Some(Case { filter: F1S[d[0] as usize].into(), input: st(&nth_string(d[1], maxlen)?), args: vec![st(&nth_string(d[2], 2)?)] })
        },
        oracle,
    );
    ctx.exhaustive(
        "arity2_str",
        2 * ns * na * (na1 + 1),
        |i| {
            let d = decode(i, &[2, ns, na, na1 + 1])?;
            let mut args = vec![st(&nth_string(d[2], 2)?)];
            if d[3] > 0 {
                args.push(st(&nth_string(d[3] - 1, 1)?));
            }
            Some(Case { filter: F2S[d[0] as usize].into(), input: st(&nth_string(d[1], maxlen)?), args })
        },
        oracle,
    );
    let iv2 = iv.clone();
    ctx.exhaustive(
        "slice",
        ns * ni * 10,
        move |i| {
            let d = decode(i, &[ns, ni, 10])?;
            let mut args = vec![RV::Int(iv2[d[1] as usize])];
            if d[2] > 0 {
                args.push(RV::Int(d[2] as i64 - 1));
            }
            Some(Case { filter: "slice".into(), input: st(&nth_string(d[0], maxlen)?), args })
        },
        oracle,
    );
    let iv3 = iv.clone();
    ctx.exhaustive(
        "truncate",
        2 * ns * (ni + 1) * (na1 + 1),
        move |i| {
            let d = decode(i, &[2, ns, ni + 1, na1 + 1])?;
            let mut args = vec![];
            if d[2] > 0 {
                args.push(RV::Int(iv3[d[2] as usize - 1]));
                if d[3] > 0 {
                    args.push(st(&nth_string(d[3] - 1, 1)?));
                }
            } else if d[3] > 0 {
                return None;
            }
            Some(Case { filter: ["truncate", "truncatewords"][d[0] as usize].into(), input: st(&nth_string(d[1], maxlen)?), args })
        },
        oracle,
    );
    let iv4 = iv.clone();
    ctx.exhaustive(
        "laws",
        4 * ns * na * 4,
        move |i| {
            let d = decode(i, &[4, ns, na, 4])?;
            let law = ["split_join", "strip_lr", "truncate_len", "size_append"][d[0] as usize];
            if (law == "strip_lr") && (d[2] != 0 || d[3] != 0) {
                return None;
            }
            if law != "truncate_len" && d[3] != 0 {
                return None;
            }
            Some(Law { law: law.into(), s: nth_string(d[1], maxlen)?, a: nth_string(d[2], 2)?, n: [0, 1, 2, 4][d[3] as usize] })
        },
        law_oracle,
    );
    let _ = iv4;
    // default on non-string inputs
    let defaults: Vec<Case> = {
        let ins = vec![RV::Nil, RV::Bool(false), RV::Bool(true), st(""), st(" "), RV::Int(0), RV::Arr(vec![]), RV::Arr(vec![RV::Nil]), RV::Obj(vec![]), RV::Obj(vec![("a".into(), RV::Int(1))]), crate::rv::fl(0.0)];
        ins.into_iter().map(|input| Case { filter: "default".into(), input, args: vec![st("D")] }).collect()
    };
    ctx.cases("default_kinds", defaults, |c, obs| {
        obs.nt(&c.input.dump());
        let got = app("default", &c.input, &c.args);
        let expect_default = matches!(&c.input, RV::Nil | RV::Bool(false)) || matches!(&c.input, RV::Str(s) if s.is_empty()) || matches!(&c.input, RV::Arr(a) if a.is_empty()) || matches!(&c.input, RV::Obj(o) if o.is_empty());
        let want = if expect_default { st("D") } else { c.input.clone() };
        match &got {
            Ok(Ok(v)) if *v == want => Ok(()),
            _ => Err(Failure::new("default: wrong choice", format!("input={} got={} want={}", c.input.dump(), show(&got), want.dump()))),
        }
    });

    // E1
    let long = || gen::text(200);
    let arg_s = || gen::text(6);
    ctx.random("random_single", ctx.pick(150_000, 15_000_000), move || {
        let f0 = (proptest::sample::select(F0.to_vec()), long()).prop_map(|(f, s)| Case { filter: f.into(), input: st(&s), args: vec![] });
        let f1 = (proptest::sample::select(F1S.to_vec()), long(), arg_s()).prop_map(|(f, s, a)| Case { filter: f.into(), input: st(&s), args: vec![st(&a)] });
        let f2 = (proptest::sample::select(F2S.to_vec()), long(), arg_s(), arg_s()).prop_map(|(f, s, a, b)| Case { filter: f.into(), input: st(&s), args: vec![st(&a), st(&b)] });
        let sl = (long(), -220i64..220, proptest::option::of(1i64..220)).prop_map(|(s, o, l)| Case { filter: "slice".into(), input: st(&s), args: std::iter::once(RV::Int(o)).chain(l.map(RV::Int)).collect() });
        let tr = (proptest::sample::select(vec!["truncate", "truncatewords"]), long(), 0i64..220, proptest::option::of(arg_s())).prop_map(|(f, s, n, e)| Case { filter: f.into(), input: st(&s), args: std::iter::once(RV::Int(n)).chain(e.map(|e| st(&e))).collect() });
        prop_oneof![3 => f0, 3 => f1, 2 => f2, 2 => sl, 2 => tr]
    }, oracle);
    ctx.random("random_laws", ctx.pick(60_000, 6_000_000), move || {
        (proptest::sample::select(vec!["split_join", "strip_lr", "truncate_len", "size_append"]), gen::text(60), gen::text(3), 0i64..70).prop_map(|(law, s, a, n)| Law { law: law.into(), s, a, n })
    }, law_oracle);
    ctx.random("chains", ctx.pick(150_000, 8_000_000), move || {
        let link = prop_oneof![
            4 => proptest::sample::select(F0.to_vec()).prop_map(|f| (f.to_string(), vec![])),
            2 => proptest::sample::select(vec![",", " ", "a", "zz"]).prop_map(|s| ("split".to_string(), vec![st(s)])),
            1 => proptest::sample::select(vec!["-", ""]).prop_map(|s| ("join".to_string(), vec![st(s)])),
            1 => Just(("compact".to_string(), vec![])),
            3 => (proptest::sample::select(vec!["append", "prepend", "remove", "remove_first", "default"]), gen::text(3)).prop_map(|(f, a)| (f.to_string(), vec![st(&a)])),
            2 => (proptest::sample::select(F2S.to_vec()), gen::text(2), gen::text(2)).prop_map(|(f, a, b)| (f.to_string(), vec![st(&a), st(&b)])),
            2 => (-8i64..8, 1i64..8).prop_map(|(o, l)| ("slice".to_string(), vec![RV::Int(o), RV::Int(l)])),
            1 => (0i64..12, gen::text(2)).prop_map(|(n, e)| ("truncate".to_string(), vec![RV::Int(n), st(&e)])),
        ];
        (prop_oneof![4 => gen::text(24), 1 => Just(String::new()), 1 => Just("a,b".to_string())], proptest::collection::vec(link, 1..=4)).prop_map(|(input, chain)| Chain { input, chain })
    }, chain_oracle);
    // every chain of 2..3 links over a small link set that produces nil / empty intermediates
    let links: Vec<(String, Vec<RV>)> = vec![
        ("split".into(), vec![st(",")]), ("first".into(), vec![]), ("last".into(), vec![]), ("default".into(), vec![st("D")]), ("append".into(), vec![st("x")]),
        ("size".into(), vec![]), ("upcase".into(), vec![]), ("join".into(), vec![st("-")]), ("compact".into(), vec![]), ("strip".into(), vec![]), ("truncate".into(), vec![RV::Int(1), st("")]),
    ];
    let nl = links.len() as u64;
    let inputs = ["", "a", "a,b", ",", " "];
    ctx.exhaustive("short_chains", 2 * 5 * nl * nl * nl, move |i| {
        let d = decode(i, &[2, 5, nl, nl, nl])?;
        let mut chain = vec![links[d[2] as usize].clone(), links[d[3] as usize].clone()];
        if d[0] == 1 {
            chain.push(links[d[4] as usize].clone());
        } else if d[4] != 0 {
            return None;
        }
        Some(Chain { input: inputs[d[1] as usize].to_string(), chain })
    }, chain_oracle);
}
