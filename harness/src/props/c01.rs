//! C01 — parsing is total.

use crate::engine::{decode, Check, Ctx, Failure, Obs};
use crate::lq::{self, Conf, CONFS};
use proptest::prelude::*;
use serde::{Deserialize, Serialize};

/// The lexical alphabet (DESIGN 4.1).
pub const TOKENS: &[&str] = &[
    "{{", "{{-", "}}", "-}}", "{%", "{%-", "%}", "-%}",
    "assign", "capture", "endcapture", "case", "when", "endcase", "comment", "endcomment", "cycle", "for", "endfor", "else", "elsif", "if", "endif",
    "ifchanged", "endifchanged", "include", "increment", "decrement", "raw", "endraw", "render", "tablerow", "endtablerow", "unless", "endunless",
    "break", "continue",
    "in", "with", "as", "limit:", "offset:", "cols:", "reversed",
    "==", "!=", "<>", "<", ">", "<=", ">=", "contains", "and", "or", "=", "|", ":", ",", ".", "..", "(", ")", "[", "]",
    "0", "-1", "+5", "1.5", "99999999999999999999", "-99999999999999999999", "9223372036854775808", "1.", ".5", "'a'", "\"b\"", "'unterminated", "\"x",
    "nil", "true", "empty", "blank",
    "x", "forloop", "a-b", "_", "upcase", "size", "nope",
    "é", "😀", "\t", "\n", " ", "{", "}", "%",
];

/// 20-token core for the deeper exhaustive sweep.
pub const CORE: &[&str] = &[
    "{{", "}}", "{%", "%}", "{%-", "-%}", "if", "endif", "for", "endfor", "comment", "endcomment", "raw", "endraw", "x", "in", "|", "99999999999999999999", "'a", "else",
];

/// Tag-level alphabet: complete tags, so that short sequences reach block structure
/// (unclosed, mis-nested, openers inside comment/raw, stray end tags).
pub const TAGS: &[&str] = &[
    "{% comment %}", "{% endcomment %}", "{% raw %}", "{% endraw %}", "{% if x %}", "{% elsif y %}", "{% else %}", "{% endif %}",
    "{% unless x %}", "{% endunless %}", "{% for i in (1..2) %}", "{% endfor %}", "{% tablerow i in a cols:2 %}", "{% endtablerow %}",
    "{% case x %}", "{% when 1 %}", "{% endcase %}", "{% capture x %}", "{% endcapture %}", "{% ifchanged %}", "{% endifchanged %}",
    "{% break %}", "{% assign x = 1 %}", "{% cycle 1, 2 %}", "{% include 'p' %}", "{% nope %}", "{%- endnope -%}", "{{ x }}", "{{- x | upcase -}}", " t ",
    "{{", "{%", "{% if", "{% endif x %}", "{% endraw x %}",
];

#[derive(Clone, Debug, Serialize, Deserialize)]
pub struct Src {
    pub src: String,
}

fn open_delims(s: &str) -> bool {
    s.contains("{{") || s.contains("{%")
}

/// Oracle: under each configuration parse returns Ok or Err with a non-empty message.
pub fn total(case: &Src, obs: &mut Obs) -> Check {
    let s = &case.src;
    if open_delims(s) {
        obs.nt(s);
    }
    let mut any_ok = false;
    for conf in CONFS {
        let r = lq::with_parser(conf, |p| lq::parse(p, s));
        match r {
            Err(p) => {
                return Err(Failure::new(format!("parse panics: {}", p.site()), format!("conf={conf:?} src={s:?} panic={}", p.what)));
            }
            Ok(Err(msg)) => {
                if msg.trim().is_empty() {
                    return Err(Failure::new("parse error with empty message", format!("conf={conf:?} src={s:?}")));
                }
            }
            Ok(Ok(_)) => any_ok = true,
        }
    }
    obs.extra_evals += 2;
    obs.class(if any_ok { "parsed_ok" } else { "rejected" });
    if s.contains("comment") || s.contains("raw") {
        obs.class("has_comment_or_raw");
    }
    if s.contains("99999999999999999999") || s.contains("9223372036854775808") {
        obs.class("out_of_range_literal");
    }
    Ok(())
}

fn join_tokens(alpha: &[&str], digits: &[u64], spaced: bool) -> String {
    let mut s = String::new();
    for (i, d) in digits.iter().enumerate() {
        if i > 0 && spaced {
            s.push(' ');
        }
        s.push_str(alpha[*d as usize]);
    }
    s
}

fn seq_space(alpha: &'static [&'static str], len: usize) -> (u64, impl Fn(u64) -> Option<Src> + Sync) {
    // index = (spaced bit) + 2 * odometer ; all lengths 1..=len are covered by separate calls
    let radices: Vec<u64> = std::iter::once(2u64).chain(std::iter::repeat(alpha.len() as u64).take(len)).collect();
    let n = radices.iter().product();
    (n, move |i| {
        let d = decode(i, &radices)?;
        let spaced = d[0] == 1;
        if len == 1 && spaced {
            return None;
        }
        Some(Src { src: join_tokens(alpha, &d[1..], spaced) })
    })
}

pub fn soup() -> impl Strategy<Value = Src> {
    let n = TOKENS.len();
    proptest::collection::vec((0..n, 0..4u8), 5..60).prop_map(|v| {
        let mut s = String::new();
        for (t, sep) in v {
            s.push_str(TOKENS[t]);
            match sep {
                0 => {}
                1 | 2 => s.push(' '),
                _ => s.push('\n'),
            }
        }
        Src { src: s }
    })
}

pub fn run(ctx: &Ctx) {
    ctx.set_rule("E2: every sequence of <=L tokens over the lexical alphabet (joined with and without a blank), E1: random token soups of 5..60 tokens, character-level mutations of well-formed generated templates, constructive invalid templates; each input parsed under stdlib / stdlib+jekyll+shopify+extra / empty configurations. Non-trivial = input contains an opening delimiter ({{ or {%); distinct = distinct source string.");
    ctx.assume("nesting depth <= 32; a parse exceeding the watchdog is reported as inconclusive unless reproducible");
    let full_len = ctx.pick(3, 4);
    for len in 1..=full_len {
        let (n, nth) = seq_space(TOKENS, len);
        ctx.exhaustive(&format!("tokens_len{len}"), n, nth, total);
    }
    let core_len = ctx.pick(4, 5);
    let (n, nth) = seq_space(CORE, core_len);
    ctx.exhaustive(&format!("core_len{core_len}"), n, nth, total);
    if ctx.pick(false, true) {
        let (n, nth) = seq_space(CORE, 6);
        ctx.strided("core_len6_slice", n, 8, nth, total);
    }
    let tag_len = ctx.pick(4, 5);
    for len in 1..tag_len {
        let (n, nth) = seq_space(TAGS, len);
        ctx.exhaustive(&format!("tags_len{len}"), n, nth, total);
    }
    let (n, nth) = seq_space(TAGS, tag_len);
    ctx.exhaustive(&format!("tags_len{tag_len}"), n, nth, total);
    ctx.random("soup", ctx.pick(150_000, 3_000_000), soup, total);
}
