//! C01 — parsing is total.

use crate::engine::{decode, Check, Ctx, Failure, Obs};
use crate::lq::{self, Conf, CONFS};
use proptest::prelude::*;
use serde::{Deserialize, Serialize};

/// The lexical alphabet (DESIGN 4.1).
pub const TOKENS: &[&str] = &[
    "{{", "{{-", "}}", "-}}", "{%", "{%-", "%}", "-%}",
    "assign", "capture", "endcapture", "case", "when", "endcase", "comment", "endcomment", "cycle", "for", "endfor", "else", "elsif", "if", "endif",
    "ifchanged", "endifchanged", "include", "increment", "decrement", "raw", "endraw", "render", "tablerow", "endtablerow", "unless", "endunless",
    "break", "continue",
    "in", "with", "as", "limit:", "offset:", "cols:", "reversed",
    "==", "!=", "<>", "<", ">", "<=", ">=", "contains", "and", "or", "=", "|", ":", ",", ".", "..", "(", ")", "[", "]",
    "0", "-1", "+5", "1.5", "99999999999999999999", "-99999999999999999999", "9223372036854775808", "1.", ".5", "'a'", "\"b\"", "'unterminated", "\"x",
    "nil", "true", "empty", "blank",
    "x", "forloop", "a-b", "_", "upcase", "size", "nope",
    "é", "😀", "\t", "\n", " ", "{", "}", "%",
];

/// 20-token core for the deeper exhaustive sweep.
pub const CORE: &[&str] = &[
    "{{", "}}", "{%", "%}", "{%-", "-%}", "if", "endif", "for", "endfor", "comment", "endcomment", "raw", "endraw", "x", "in", "|", "99999999999999999999", "'a", "else",
];

/// Tag-level alphabet: complete tags, so that short sequences reach block structure
/// (unclosed, mis-nested, openers inside comment/raw, stray end tags).
pub const TAGS: &[&str] = &[
    "{% comment %}", "{% endcomment %}", "{% raw %}", "{% endraw %}", "{% if x %}", "{% elsif y %}", "{% else %}", "{% endif %}",
    "{% unless x %}", "{% endunless %}", "{% for i in (1..2) %}", "{% endfor %}", "{% tablerow i in a cols:2 %}", "{% endtablerow %}",
    "{% case x %}", "{% when 1 %}", "{% endcase %}", "{% capture x %}", "{% endcapture %}", "{% ifchanged %}", "{% endifchanged %}",
    "{% break %}", "{% assign x = 1 %}", "{% cycle 1, 2 %}", "{% include 'p' %}", "{% nope %}", "{%- endnope -%}", "{{ x }}", "{{- x | upcase -}}", " t ",
    "{{", "{%", "{% if", "{% endif x %}", "{% endraw x %}",
];

#[derive(Clone, Debug, Serialize, Deserialize)]
pub struct Src {
    pub src: String,
}

fn open_delims(s: &str) -> bool {
    s.contains("{{") || s.contains("{%")
}

/// Oracle: under each configuration parse returns Ok or Err with a non-empty message.
pub fn total(case: &Src, obs: &mut Obs) -> Check {
    let s = &case.src;
    if open_delims(s) {
        obs.nt(s);
    }
    let mut any_ok = false;
    for conf in CONFS {
        let r = lq::with_parser(conf, |p| lq::parse(p, s));
        match r {
            Err(p) => {
                return Err(Failure::new(format!("parse panics: {}", p.site()), format!("conf={conf:?} src={s:?} panic={}", p.what)));
            }
            Ok(Err(msg)) => {
                if msg.trim().is_empty() {
                    return Err(Failure::new("parse error with empty message", format!("conf={conf:?} src={s:?}")));
                }
            }
            Ok(Ok(_)) => any_ok = true,
        }
    }
    obs.extra_evals += 2;
    obs.class(if any_ok { "parsed_ok" } else { "rejected" });
    if s.contains("comment") || s.contains("raw") {
        obs.class("has_comment_or_raw");
    }
    if s.contains("99999999999999999999") || s.contains("9223372036854775808") {
        obs.class("out_of_range_literal");
    }
    Ok(())
}

fn join_tokens(alpha: &[&str], digits: &[u64], spaced: bool) -> String {
    let mut s = String::new();
    for (i, d) in digits.iter().enumerate() {
        if i > 0 && spaced {
            s.push(' ');
        }
        s.push_str(alpha[*d as usize]);
    }
    s
}

fn seq_space(alpha: &'static [&'static str], len: usize) -> (u64, impl Fn(u64) -> Option<Src> + Sync) {
    // index = (spaced bit) + 2 * odometer ; all lengths 1..=len are covered by separate calls
    let radices: Vec<u64> = std::iter::once(2u64).chain(std::iter::repeat(alpha.len() as u64).take(len)).collect();
    let n = radices.iter().product();
    (n, move |i| {
        let d = decode(i, &radices)?;
        let spaced = d[0] == 1;
        if len == 1 && spaced {
            return None;
        }
        Some(Src { src: join_tokens(alpha, &d[1..], spaced) })
    })
}

pub fn soup() -> impl Strategy<Value = Src> {
    let n = TOKENS.len();
    proptest::collection::vec((0..n, 0..4u8), 5..60).prop_map(|v| {
        let mut s = String::new();
        for (t, sep) in v {
            s.push_str(TOKENS[t]);
            match sep {
                0 => {}
                1 | 2 => s.push(' '),
                _ => s.push('\n'),
            }
        }
        Src { src: s }
    })
}

// ---- (c) character-level mutations of well-formed generated templates

#[derive(Clone, Debug, Serialize, Deserialize)]
pub struct Mutated {
    pub src: String,
}

fn wellformed_cfg() -> crate::astgen::GenCfg {
    crate::astgen::GenCfg { unicode_text: true, depth: 3, include: true, render: true, partials: vec!["p".into()], ..crate::astgen::GenCfg::all() }
}

/// without raw/comment blocks: text after an unclosed opener must not be able to close it
/// (`raw` does not nest: an `endraw` further on would end it)
pub fn wellformed_plain() -> BoxedStrategy<String> {
    let cfg = crate::astgen::GenCfg { raw: false, comment: false, ..wellformed_cfg() };
    crate::astgen::nodes(&cfg, 5).prop_map(|n| crate::ast::print(&n)).boxed()
}

pub fn wellformed() -> BoxedStrategy<String> {
    crate::astgen::nodes(&wellformed_cfg(), 5).prop_map(|n| crate::ast::print(&n)).boxed()
}

fn mutated() -> BoxedStrategy<Src> {
    (wellformed(), proptest::collection::vec((0u8..5, any::<u16>(), any::<u16>()), 1..=3))
        .prop_map(|(src, muts)| {
            let mut cs: Vec<char> = src.chars().collect();
            for (kind, a, b) in muts {
                if cs.is_empty() {
                    break;
                }
                let i = crate::engine::pick_idx(a, cs.len());
                match kind {
                    0 => {
                        cs.remove(i);
                    }
                    1 => {
                        let c = cs[i];
                        cs.insert(i, c);
                    }
                    2 => {
                        if i + 1 < cs.len() {
                            cs.swap(i, i + 1);
                        }
                    }
                    3 => {
                        let delim = ['{', '}', '%', '-', '|', '\'', '"', ':', ','];
                        cs[i] = delim[crate::engine::pick_idx(b, delim.len())];
                    }
                    _ => {
                        // delete a whole run up to the next delimiter character
                        let mut j = i;
                        while j < cs.len() && !matches!(cs[j], '}' | '%') {
                            j += 1;
                        }
                        cs.drain(i..j.min(cs.len()));
                    }
                }
            }
            Src { src: cs.into_iter().collect() }
        })
        .boxed()
}

/// nesting depth 32 forced
fn deep() -> BoxedStrategy<Src> {
    (proptest::collection::vec(0u8..6, 32), any::<bool>()).prop_map(|(kinds, close)| {
        let mut s = String::new();
        let mut ends = Vec::new();
        for k in kinds {
            let (o, e) = match k {
                0 => ("{% if x %}", "{% endif %}"),
                1 => ("{% for i in (1..2) %}", "{% endfor %}"),
                2 => ("{% unless y %}", "{% endunless %}"),
                3 => ("{% capture z %}", "{% endcapture %}"),
                4 => ("{% case x %}{% when 1 %}", "{% endcase %}"),
                _ => ("{% comment %}", "{% endcomment %}"),
            };
            s.push_str(o);
            ends.push(e);
        }
        s.push_str("{{ x[x[x[x[x[x[x[x[0]]]]]]]] }}");
        if close {
            while let Some(e) = ends.pop() {
                s.push_str(e);
            }
        }
        Src { src: s }
    }).boxed()
}

// ---- (d) constructive invalid templates: must be rejected with a message

#[derive(Clone, Debug, Serialize, Deserialize)]
pub struct Invalid {
    pub src: String,
    pub why: String,
}

fn must_err(c: &Invalid, obs: &mut Obs) -> Check {
    obs.nt(&c.src);
    obs.class(crate::engine::intern(&c.why));
    for conf in [Conf::Stdlib, Conf::Full] {
        match lq::with_parser(conf, |p| lq::parse(p, &c.src)) {
            Err(p) => return Err(Failure::new(format!("parse panics: {}", p.site()), format!("conf={conf:?} src={:?} panic={}", c.src, p.what))),
            Ok(Ok(_)) => return Err(Failure::new(format!("rejected text accepted: {}", c.why), format!("conf={conf:?} src={:?} parsed successfully", c.src))),
            Ok(Err(m)) if m.trim().is_empty() => return Err(Failure::new("parse error with empty message", format!("src={:?}", c.src))),
            Ok(Err(_)) => {}
        }
    }
    obs.extra_evals += 1;
    Ok(())
}

const BREAKS_MIDDLE: &[(&str, &str)] = &[
    ("{% nosuchtag %}", "unknown tag"),
    ("{% endnosuch %}", "unknown tag"),
    ("{{ x | nosuchfilter }}", "unknown filter"),
    ("{% assign q = x | nosuchfilter %}", "unknown filter"),
    ("{{ x | upcase: 1 }}", "too many filter arguments"),
    ("{{ x | append }}", "too few filter arguments"),
    ("{{ x | append: 'a', 'b' }}", "too many filter arguments"),
    ("{{ x | replace }}", "too few filter arguments"),
    ("{{ 99999999999999999999 }}", "out-of-range literal"),
    ("{% if x == 99999999999999999999 %}{% endif %}", "out-of-range literal"),
    ("{% for i in (1..99999999999999999999) %}{% endfor %}", "out-of-range literal"),
    ("{{ x | plus: -99999999999999999999 }}", "out-of-range literal"),
    ("{{ 1. }}", "malformed literal"),
    ("{{ .5 }}", "malformed literal"),
    ("{% if x %}{% for i in y %}{% endif %}{% endfor %}", "mis-nested blocks"),
    ("{% for i in y %}{% capture z %}{% endfor %}{% endcapture %}", "mis-nested blocks"),
    ("{% case x %}{% when 1 %}{% if y %}{% endcase %}{% endif %}", "mis-nested blocks"),
    ("{% endif %}", "stray end tag"),
    ("{% endfor %}", "stray end tag"),
    ("{% else %}", "stray else"),
    ("{% if %}{% endif %}", "missing condition"),
    ("{% for %}{% endfor %}", "missing loop header"),
    ("{% assign %}", "missing assignment"),
    ("{{ }}", "empty output"),
    ("{{ | upcase }}", "empty output"),
    ("{% cycle g: %}", "cycle without values"),
];

/// Every position of the stdlib grammar that takes a value (`@`), for the bad-literal family.
const VALUE_POSITIONS: &[&str] = &[
    "{{ @ }}",
    "{{ x | append: @ }}",
    "{{ x | replace: 'a', @ }}",
    "{{ x | default: 1, allow_false: @ }}",
    "{{ a[@] }}",
    "{{ a.b[@] }}",
    "{{ a[b[@]] }}",
    "{{ a[@].c }}",
    "{% assign q = @ %}",
    "{% assign q = x | plus: @ %}",
    "{% assign q = a[@] %}",
    "{% if @ %}{% endif %}",
    "{% if x == @ %}{% endif %}",
    "{% if @ != x %}{% endif %}",
    "{% if x contains @ %}{% endif %}",
    "{% if a[@] %}{% endif %}",
    "{% if x and @ %}{% endif %}",
    "{% unless @ > 1 %}{% endunless %}",
    "{% if x %}{% elsif @ %}{% endif %}",
    "{% case @ %}{% when 1 %}{% endcase %}",
    "{% case x %}{% when @ %}{% endcase %}",
    "{% case x %}{% when 1, @ %}{% endcase %}",
    "{% case x %}{% when 1 or @ %}{% endcase %}",
    "{% for i in (@..3) %}{% endfor %}",
    "{% for i in (1..@) %}{% endfor %}",
    "{% for i in a[@] %}{% endfor %}",
    "{% for i in y limit: @ %}{% endfor %}",
    "{% for i in y offset: @ %}{% endfor %}",
    "{% for i in y limit: 1 offset: @ %}{% endfor %}",
    "{% for i in y reversed limit: @ %}{% endfor %}",
    "{% tablerow i in y cols: @ %}{% endtablerow %}",
    "{% tablerow i in y limit: @ %}{% endtablerow %}",
    "{% tablerow i in y offset: @ %}{% endtablerow %}",
    "{% tablerow i in (1..@) %}{% endtablerow %}",
    "{% cycle @, 2 %}",
    "{% cycle 1, @ %}",
    "{% cycle 'g': 1, @ %}",
    "{% include 'p' k: @ %}",
    "{% include @ %}",
    "{% render 'p', k: @ %}",
    "{% render 'p' with @ as k %}",
    "{% render 'p' for @ as k %}",
    "{% capture c %}{{ @ }}{% endcapture %}",
    "{% ifchanged %}{{ @ }}{% endifchanged %}",
    "{% if x %}{% for i in y %}{{ a[@] }}{% endfor %}{% endif %}",
];

/// Literals the language rejects wherever a value may stand: integers outside the 64-bit range
/// and malformed decimals.
const BAD_LITERALS: &[(&str, &str)] = &[
    ("99999999999999999999", "out-of-range literal"),
    ("-99999999999999999999", "out-of-range literal"),
    ("9223372036854775808", "out-of-range literal"),
    ("-9223372036854775809", "out-of-range literal"),
    ("+18446744073709551616", "out-of-range literal"),
    ("1.", "malformed literal"),
    (".5", "malformed literal"),
    ("-.5", "malformed literal"),
    ("1.e3", "malformed literal"),
];

fn bad_literal_cases() -> Vec<Invalid> {
    let mut v = Vec::new();
    for pos in VALUE_POSITIONS {
        for (lit, why) in BAD_LITERALS {
            v.push(Invalid { src: pos.replace('@', lit), why: format!("{why} in {pos}") });
            v.push(Invalid { src: format!("text é {{{{ x }}}} {} tail", pos.replace('@', lit)), why: format!("{why} in {pos}") });
        }
    }
    v
}

const OPENERS: &[&str] = &["{% if x %}", "{% unless x %}", "{% for i in y %}", "{% tablerow i in y %}", "{% capture z %}", "{% case x %}{% when 1 %}", "{% ifchanged %}", "{% raw %}", "{% comment %}", "{% comment %}{% if x %}", "{% comment %}{% raw %}", "{% if x %}{% comment %}{% unless y %}", "{% comment %}{% comment %}"];

const TAILS: &[(&str, &str)] = &[("{{", "stray delimiter"), ("{%", "stray delimiter"), ("{{ 'abc }}", "unterminated string"), ("{{ \"abc }}", "unterminated string"), ("{% if x", "unterminated tag"), ("{{ x", "unterminated output"), ("{{ x | ", "unterminated output")];

/// error paths echo source text: wrong-arity / unknown filters with long non-ASCII arguments
fn long_arg_breaks() -> BoxedStrategy<(String, &'static str)> {
    let lit = (crate::gen::text(70), 0usize..70, any::<bool>()).prop_map(|(t, pad, dq)| {
        let q = if dq { '"' } else { '\'' };
        let body: String = "a".repeat(pad) + &t.chars().filter(|c| *c != q).collect::<String>();
        format!("{q}{body}{q}")
    });
    prop_oneof![
        (lit.clone(), lit.clone()).prop_map(|(a, b)| (format!("{{{{ x | upcase: {a}, {b} }}}}"), "too many filter arguments")),
        (lit.clone(), lit.clone(), lit.clone()).prop_map(|(a, b, c)| (format!("{{{{ x | append: {a}, {b}, {c} }}}}"), "too many filter arguments")),
        (lit.clone(), lit.clone()).prop_map(|(a, b)| (format!("{{{{ {a} | nosuchfilter: {b} }}}}"), "unknown filter")),
        (lit.clone(), lit.clone()).prop_map(|(a, b)| (format!("{{% assign q = {a} | replace: {b}, {b}, {b} %}}"), "too many filter arguments")),
        (lit.clone()).prop_map(|a| (format!("{{{{ x | truncate: 3, {a}, {a} }}}}"), "too many filter arguments")),
        (lit.clone()).prop_map(|a| (format!("{{{{ x | default: k: {a} }}}}"), "unexpected keyword argument")),
        (lit.clone()).prop_map(|a| (format!("{{% nosuchtag {a} %}}"), "unknown tag")),
        (lit).prop_map(|a| (format!("{{% if x == {a} {a} %}}{{% endif %}}"), "malformed condition")),
    ]
    .boxed()
}

fn invalid() -> BoxedStrategy<Invalid> {
    let no_quotes = |s: String| s.replace(['\'', '"'], "q");
    prop_oneof![
        3 => (wellformed(), long_arg_breaks(), wellformed()).prop_map(|(a, (b, why), c)| Invalid { src: format!("{a}{b}{c}"), why: why.into() }),
        3 => (wellformed(), proptest::sample::select(BREAKS_MIDDLE.to_vec()), wellformed()).prop_map(|(a, (b, why), c)| Invalid { src: format!("{a}{b}{c}"), why: why.into() }),
        3 => (wellformed(), proptest::sample::select(OPENERS.to_vec()), wellformed_plain()).prop_map(|(a, o, c)| Invalid { src: format!("{a}{o}{c}"), why: "unclosed block".into() }),
        2 => (wellformed(), proptest::sample::select(TAILS.to_vec())).prop_map(move |(a, (t, why))| Invalid { src: format!("{}{t}", no_quotes(a)), why: why.into() }),
    ]
    .boxed()
}


/// Every spelling of a *legal* value in every value position (the grammar accepts nil / empty /
/// blank / booleans / ranges wherever a value may stand, e.g. as a bracket index): parsing must
/// return Ok or Err, never panic.
const LEGAL_VALUES: &[&str] = &["nil", "null", "empty", "blank", "true", "false", "'a'", "\"b\"", "''", "1.5", "-0", "007", "+5", "x", "x.y", "x[0]", "x['k']", "x[y]", "x[nil]", "x[empty].z", "(1..2)", "forloop.index", "-1", "9223372036854775807", "-9223372036854775808"];

fn legal_value_cases() -> Vec<Src> {
    let mut v = Vec::new();
    for pos in VALUE_POSITIONS {
        for lit in LEGAL_VALUES {
            v.push(Src { src: pos.replace('@', lit) });
            v.push(Src { src: format!("{{% comment %}}{}{{% endcomment %}}", pos.replace('@', lit)) });
            v.push(Src { src: format!("{{% if x %}}{}{{% endif %}}", pos.replace('@', lit)) });
        }
    }
    v
}

/// Regions of a block that are never rendered are still parsed: rejected text there is rejected.
const UNRENDERED_REGIONS: &[&str] = &[
    "{% case x %}@{% when 1 %}a{% endcase %}",
    "{% case x %} @ {% else %}c{% endcase %}",
    "{% if x %}{% case x %}@{% when 1 %}a{% endcase %}{% endif %}",
    "{% if false %}@{% endif %}",
    "{% unless true %}@{% endunless %}",
    "{% for i in (1..0) %}@{% endfor %}",
    "{% for i in (1..0) %}{% else %}{% endfor %}@",
    "{% if true %}a{% else %}@{% endif %}",
    "{% case 1 %}{% when 1 %}a{% when 2 %}@{% endcase %}",
    "{% capture c %}@{% endcapture %}",
    "{% tablerow i in (1..0) %}@{% endtablerow %}",
    "{% ifchanged %}@{% endifchanged %}",
];

const REJECTED_BITS: &[(&str, &str)] = &[
    ("{{ 1 | nosuchfilter }}", "unknown filter"),
    ("{% nosuchtag %}", "unknown tag"),
    ("{{ x | upcase: 1 }}", "too many filter arguments"),
    ("{{ 99999999999999999999 }}", "out-of-range literal"),
    ("{{ 1. }}", "malformed literal"),
    ("{{ }}", "empty output"),
    ("{% endfor %}", "stray end tag"),
];

fn unrendered_region_cases() -> Vec<Invalid> {
    let mut v = Vec::new();
    for r in UNRENDERED_REGIONS {
        for (b, why) in REJECTED_BITS {
            v.push(Invalid { src: r.replace('@', b), why: format!("{why} in the unrendered region of {r}") });
            v.push(Invalid { src: r.replace('@', &format!(" text {b} é ")), why: format!("{why} in the unrendered region of {r}") });
        }
    }
    v
}

fn invalid_fixed() -> Vec<Invalid> {
    let mut v = Vec::new();
    for (b, why) in BREAKS_MIDDLE {
        v.push(Invalid { src: b.to_string(), why: why.to_string() });
        v.push(Invalid { src: format!("a {{{{ x }}}} {b} z"), why: why.to_string() });
    }
    for o in OPENERS {
        v.push(Invalid { src: o.to_string(), why: "unclosed block".into() });
        v.push(Invalid { src: format!("{o} text {{{{ x }}}}"), why: "unclosed block".into() });
        v.push(Invalid { src: format!("{{% if a %}}{o}{{% endif %}}"), why: "unclosed block".into() });
    }
    for (t, why) in TAILS {
        v.push(Invalid { src: t.to_string(), why: why.to_string() });
        v.push(Invalid { src: format!("abc {{{{ x }}}}{t}"), why: why.to_string() });
    }
    v
}

pub fn run(ctx: &Ctx) {
    ctx.set_rule("E2: every sequence of <=L tokens over the lexical alphabet (joined with and without a blank), E1: random token soups of 5..60 tokens, character-level mutations of well-formed generated templates, constructive invalid templates; each input parsed under stdlib / stdlib+jekyll+shopify+extra / empty configurations. Non-trivial = input contains an opening delimiter ({{ or {%); distinct = distinct source string.");
    ctx.assume("nesting depth <= 32; a parse exceeding the watchdog is reported as inconclusive unless reproducible");
    let full_len = ctx.pick(3, 4);
    for len in 1..=full_len {
        let (n, nth) = seq_space(TOKENS, len);
        ctx.exhaustive(&format!("tokens_len{len}"), n, nth, total);
    }
    let core_len = ctx.pick(4, 5);
    let (n, nth) = seq_space(CORE, core_len);
    ctx.exhaustive(&format!("core_len{core_len}"), n, nth, total);
    if ctx.pick(false, true) {
        let (n, nth) = seq_space(CORE, 6);
        ctx.strided("core_len6_slice", n, 8, nth, total);
    }
    let tag_len = ctx.pick(4, 5);
    for len in 1..tag_len {
        let (n, nth) = seq_space(TAGS, len);
        ctx.exhaustive(&format!("tags_len{len}"), n, nth, total);
    }
    let (n, nth) = seq_space(TAGS, tag_len);
    ctx.exhaustive(&format!("tags_len{tag_len}"), n, nth, total);
    ctx.random("soup", ctx.pick(300_000, 3_000_000), soup, total);
    ctx.random("mutated_wellformed", ctx.pick(250_000, 2_000_000), mutated, total);
    ctx.random("deep_nesting", ctx.pick(5_000, 100_000), deep, total);
    ctx.cases("invalid_fixed", invalid_fixed(), must_err);
    ctx.cases("bad_literal_positions", bad_literal_cases(), must_err);
    ctx.cases("legal_value_positions", legal_value_cases(), total);
    ctx.cases("unrendered_regions", unrendered_region_cases(), must_err);
    ctx.random("invalid_generated", ctx.pick(100_000, 600_000), invalid, must_err);
}
