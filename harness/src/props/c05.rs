//! C05 — loops visit exactly the selected elements, with truthful loop metadata.

use crate::ast::*;
use crate::astgen::{self, GenCfg};
use crate::engine::{decode, Check, Ctx, Obs, Failure};
use crate::props::c03::differential;
use crate::rv::{obj, st, RV};
use proptest::prelude::*;
use serde::{Deserialize, Serialize};

#[derive(Clone, Copy, Debug, PartialEq, Eq, Hash, Serialize, Deserialize)]
pub enum Kind {
    Array,
    LitRange,
    VarRange,
    DescRange,
    Object,
    NilVal,
}
const KINDS: [Kind; 6] = [Kind::Array, Kind::LitRange, Kind::VarRange, Kind::DescRange, Kind::Object, Kind::NilVal];

#[derive(Clone, Debug, Hash, Serialize, Deserialize)]
pub struct Header {
    pub n: i64,
    pub offset: Option<i64>,
    pub limit: Option<i64>,
    pub reversed: bool,
    /// None = for; Some(cols) = tablerow with cols (Some(None) = cols absent)
    pub tablerow: Option<Option<i64>>,
    pub kind: Kind,
    pub via_var: bool,
}

fn out(e: Expr) -> Node {
    Node::Out { e, filters: vec![], t: Tr::PLAIN }
}
fn txt(s: &str) -> Node {
    Node::Text(s.to_string())
}

fn field_dump(obj: &str, fields: &[&str]) -> Vec<Node> {
    let mut v = Vec::new();
    for (i, f) in fields.iter().enumerate() {
        if i > 0 {
            v.push(txt(","));
        }
        v.push(out(Expr::path(obj, &[f])));
    }
    v
}

pub const FOR_FIELDS: &[&str] = &["index", "index0", "rindex", "rindex0", "first", "last", "length"];
pub const TR_FIELDS: &[&str] = &["index", "index0", "rindex", "rindex0", "first", "last", "length", "col", "col0", "col_first", "col_last"];

pub fn header_data(h: &Header) -> RV {
    let n = h.n;
    obj(vec![
        ("a", RV::Arr((1..=n).map(|i| st(&format!("e{i}"))).collect())),
        ("o", if n >= 1 { obj(vec![("k", st("v"))]) } else { obj(vec![]) }),
        ("nl", RV::Nil),
        ("lo", RV::Int(1)),
        ("hi", RV::Int(n)),
        ("off", RV::Int(h.offset.unwrap_or(0))),
        ("lim", RV::Int(h.limit.unwrap_or(0))),
        ("cl", RV::Int(h.tablerow.flatten().unwrap_or(1))),
    ])
}

pub fn header_nodes(h: &Header) -> Vec<Node> {
    let attr = |v: Option<i64>, name: &str| v.map(|x| if h.via_var { Expr::var(name) } else { Expr::int(x) });
    let coll = match h.kind {
        Kind::Array => Coll::Expr(Expr::var("a")),
        Kind::LitRange => Coll::Range(Expr::int(1), Expr::int(h.n)),
        Kind::VarRange => Coll::Range(Expr::var("lo"), Expr::var("hi")),
        Kind::DescRange => Coll::Range(Expr::int(h.n), Expr::int(1)),
        Kind::Object => Coll::Expr(Expr::var("o")),
        Kind::NilVal => Coll::Expr(Expr::var("nl")),
    };
    let item: Vec<Node> = match h.kind {
        Kind::Object => vec![out(Expr::Var(Var { root: "i".into(), steps: vec![Step::Idx(Expr::int(0))] })), txt("="), out(Expr::Var(Var { root: "i".into(), steps: vec![Step::Idx(Expr::int(1))] }))],
        _ => vec![out(Expr::var("i"))],
    };
    let mut body = vec![txt("[")];
    body.extend(item);
    body.push(txt(":"));
    match h.tablerow {
        None => {
            body.extend(field_dump("forloop", FOR_FIELDS));
            body.push(txt("]"));
            vec![
                txt("<"),
                Node::For {
                    var: "i".into(),
                    coll,
                    limit: attr(h.limit, "lim"),
                    offset: attr(h.offset, "off"),
                    reversed: h.reversed,
                    body,
                    else_: Some((vec![txt("ELSE")], Tr::PLAIN)),
                    open: Tr::PLAIN,
                    close: Tr::PLAIN,
                },
                txt(">"),
            ]
        }
        Some(cols) => {
            body.extend(field_dump("tablerow", TR_FIELDS));
            body.push(txt("]"));
            vec![
                txt("<"),
                Node::TableRow { var: "i".into(), coll, cols: attr(cols, "cl"), limit: attr(h.limit, "lim"), offset: attr(h.offset, "off"), body, open: Tr::PLAIN, close: Tr::PLAIN },
                txt(">"),
            ]
        }
    }
}

fn header_oracle(h: &Header, obs: &mut Obs) -> Check {
    if h.offset.is_some() || h.limit.is_some() || h.reversed {
        obs.nt(h);
    }
    if h.offset.unwrap_or(0) + h.limit.unwrap_or(0) > h.n && h.limit.is_some() {
        obs.class("offset_plus_limit_past_end");
    }
    if h.tablerow.is_some() {
        obs.class("tablerow");
    }
    differential(&header_nodes(h), &header_data(h), &[], obs, "loop")
}

fn header_nth(i: u64) -> Option<Header> {
    // n, offset(10), limit(10), reversed, construct(6), kind(6), via_var
    let d = decode(i, &[7, 10, 10, 2, 6, 6, 2])?;
    let opt = |x: u64| if x == 0 { None } else { Some(x as i64 - 1) };
    let kind = KINDS[d[5] as usize];
    let n = d[0] as i64;
    if kind == Kind::Object && n > 1 {
        return None; // multi-key iteration order is unspecified
    }
    if kind == Kind::NilVal && n > 0 {
        return None;
    }
    let tablerow = match d[4] {
        0 => None,
        1 => Some(None),
        c => Some(Some(c as i64 - 1)),
    };
    if tablerow.is_some() && d[3] == 1 {
        return None; // tablerow has no `reversed`
    }
    Some(Header { n, offset: opt(d[1]), limit: opt(d[2]), reversed: d[3] == 1, tablerow, kind, via_var: d[6] == 1 })
}

// ---- objects with several keys: the iteration order is unspecified, so a validity predicate
// instead of one expected output

#[derive(Clone, Debug, Hash, Serialize, Deserialize)]
pub struct MultiKey {
    pub n: i64,
    pub offset: Option<i64>,
    pub limit: Option<i64>,
    pub reversed: bool,
    pub tablerow: bool,
}

fn multi_key_oracle(c: &MultiKey, obs: &mut Obs) -> Check {
    obs.nt(c);
    let keys: Vec<String> = (0..c.n).map(|i| format!("key{i}")).collect();
    let data = obj(vec![("o", RV::Obj(keys.iter().map(|k| (k.clone(), st(&format!("v-{k}")))).collect()))]);
    let mut head = String::from("i in o");
    if let Some(l) = c.limit {
        head.push_str(&format!(" limit: {l}"));
    }
    if let Some(o) = c.offset {
        head.push_str(&format!(" offset: {o}"));
    }
    if c.reversed {
        head.push_str(" reversed");
    }
    let (tag, lp, else_) = if c.tablerow { ("tablerow", "tablerow", "") } else { ("for", "forloop", "{% else %}EMPTY") };
    let src = format!("{{% {tag} {head} %}}<{{{{ i[0] }}}}={{{{ i[1] }}}};{{{{ {lp}.index }}}};{{{{ {lp}.length }}}};{{{{ {lp}.first }}}};{{{{ {lp}.last }}}}>{else_}{{% end{tag} %}}");
    let got = crate::lq::with_parser(crate::lq::Conf::Stdlib, |p| crate::lq::run_rv(p, &src, &data));
    let text = match &got {
        Ok(Ok(s)) => s.clone(),
        other => return Err(Failure::new("loop: iterating an object with several keys fails", format!("src={src:?} got={}", crate::lq::show(other)))),
    };
    let want = (c.n - c.offset.unwrap_or(0)).max(0).min(c.limit.unwrap_or(i64::MAX)) as usize;
    let fail = |why: &str| Err(Failure::new(format!("loop: object with several keys: {why}"), format!("src={src:?} n={} expected {want} iterations, output={text:?}", c.n)));
    if want == 0 {
        let stripped = text.replace("<tr class=\"row1\">", "").replace("</tr>", "").replace('\n', "");
        return if (c.tablerow && stripped.is_empty()) || (!c.tablerow && text == "EMPTY") { Ok(()) } else { fail("nothing is selected but the body ran or the else branch did not") };
    }
    let items: Vec<&str> = text.split('<').filter_map(|s| s.split_once('>').map(|x| x.0)).filter(|s| s.contains('=') && s.contains(';')).collect();
    if items.len() != want {
        return fail("wrong number of iterations");
    }
    let mut seen = std::collections::BTreeSet::new();
    for (idx, it) in items.iter().enumerate() {
        let f: Vec<&str> = it.split(';').collect();
        let Some((k, v)) = f[0].split_once('=') else { return fail("item is not a key/value pair") };
        if !keys.iter().any(|x| x == k) || v != format!("v-{k}") {
            return fail("a visited element is not an entry of the object");
        }
        if !seen.insert(k.to_string()) {
            return fail("an entry is visited twice");
        }
        let truth = [format!("{}", idx + 1), format!("{want}"), format!("{}", idx == 0), format!("{}", idx + 1 == want)];
        if f[1..] != truth.iter().map(|s| s.as_str()).collect::<Vec<_>>()[..] {
            return fail("loop fields do not describe the iteration");
        }
    }
    if c.offset.is_none() && c.limit.is_none() && seen.len() != keys.len() {
        return fail("an unrestricted loop does not visit every entry");
    }
    Ok(())
}

fn multi_key_nth(i: u64) -> Option<MultiKey> {
    let d = decode(i, &[7, 10, 10, 2, 2])?;
    let opt = |x: u64| if x == 0 { None } else { Some(x as i64 - 1) };
    if d[3] == 1 && d[4] == 1 {
        return None;
    }
    Some(MultiKey { n: d[0] as i64 + 2, offset: opt(d[1]), limit: opt(d[2]), reversed: d[3] == 1, tablerow: d[4] == 1 })
}

// ---- interrupts in two nested loops

#[derive(Clone, Debug, Hash, Serialize, Deserialize)]
pub struct Interrupts {
    pub n: i64,
    pub m: i64,
    pub is_break: bool,
    /// 0 = outer body before the inner loop, 1 = inner body, 2 = outer body after the inner loop
    pub level: u8,
    pub k: i64,
    /// guard interrupt inside a capture / case instead of a plain if
    pub wrap: u8,
}

fn interrupt_nodes(c: &Interrupts) -> Vec<Node> {
    let intr = if c.is_break { Node::Break(Tr::PLAIN) } else { Node::Continue(Tr::PLAIN) };
    let guard = |inner: Vec<Node>| -> Node {
        let cond = Cond::atom(Atom::Cmp(Expr::path("forloop", &["index"]), "==".into(), Expr::int(c.k)));
        match c.wrap {
            1 => Node::Capture { name: "cap".into(), body: vec![txt("c"), Node::If { arms: vec![(cond, inner, Tr::PLAIN)], else_: None, close: Tr::PLAIN }, txt("d")], open: Tr::PLAIN, close: Tr::PLAIN },
            2 => Node::Case {
                target: Expr::path("forloop", &["index"]),
                whens: vec![When { values: vec![Expr::int(c.k)], use_or: false, body: inner, t: Tr::PLAIN }],
                else_: None,
                open: Tr::PLAIN,
                close: Tr::PLAIN,
            },
            // the guarded interrupt sits in an included partial (it shares the caller's scope, so
            // the interrupt acts on the caller's loop exactly as if written in place)
            3 => Node::Include { name: Expr::str(if c.is_break { "brk" } else { "cnt" }), args: vec![("k".into(), Expr::int(c.k))], t: Tr::PLAIN },
            _ => Node::If { arms: vec![(cond, inner, Tr::PLAIN)], else_: None, close: Tr::PLAIN },
        }
    };
    let g = guard(vec![txt("!"), intr, txt("UNREACHED")]);
    let mut inner_body = vec![txt("("), out(Expr::var("j")), txt("."), out(Expr::path("forloop", &["parentloop", "index"])), txt("/"), out(Expr::path("forloop", &["index"]))];
    if c.level == 1 {
        inner_body.push(g.clone());
    }
    inner_body.push(txt(")"));
    let inner = Node::For {
        var: "j".into(),
        coll: Coll::Range(Expr::int(1), Expr::int(c.m)),
        limit: None,
        offset: None,
        reversed: false,
        body: inner_body,
        else_: Some((vec![txt("e")], Tr::PLAIN)),
        open: Tr::PLAIN,
        close: Tr::PLAIN,
    };
    let mut outer_body = vec![txt("<o>"), out(Expr::var("i"))];
    if c.level == 0 {
        outer_body.push(g.clone());
    }
    outer_body.push(inner);
    if c.level == 2 {
        outer_body.push(g);
    }
    outer_body.extend(vec![txt("#"), out(Expr::path("forloop", &["index"])), txt("</o>")]);
    vec![
        Node::For { var: "i".into(), coll: Coll::Range(Expr::int(1), Expr::int(c.n)), limit: None, offset: None, reversed: false, body: outer_body, else_: None, open: Tr::PLAIN, close: Tr::PLAIN },
        txt("|after"),
    ]
}

fn interrupt_oracle(c: &Interrupts, obs: &mut Obs) -> Check {
    obs.nt(c);
    if c.wrap == 3 {
        let partial = |intr: Node| {
            vec![Node::If { arms: vec![(Cond::atom(Atom::Cmp(Expr::path("forloop", &["index"]), "==".into(), Expr::var("k"))), vec![txt("!"), intr, txt("UNREACHED")], Tr::PLAIN)], else_: None, close: Tr::PLAIN }]
        };
        let sc = crate::progs::Scenario {
            main: interrupt_nodes(c),
            partials: vec![("brk".into(), crate::progs::PDef::Ok(partial(Node::Break(Tr::PLAIN)))), ("cnt".into(), crate::progs::PDef::Ok(partial(Node::Continue(Tr::PLAIN))))],
            data: obj(vec![]),
        };
        return crate::progs::differential(&sc, obs, "interrupt(in an included partial)").map(|_| ());
    }
    differential(&interrupt_nodes(c), &obj(vec![]), &[], obs, "interrupt")
}

fn interrupt_nth(i: u64) -> Option<Interrupts> {
    let d = decode(i, &[5, 5, 2, 3, 5, 4])?;
    Some(Interrupts { n: d[0] as i64, m: d[1] as i64, is_break: d[2] == 1, level: d[3] as u8, k: d[4] as i64 + 1, wrap: d[5] as u8 })
}

// ---- random larger instances

#[derive(Clone, Debug, Serialize, Deserialize)]
pub struct Rand {
    pub nodes: Vec<Node>,
    pub data: RV,
}

fn rand_cfg() -> GenCfg {
    GenCfg {
        names: vec!["x", "y", "z"],
        loopvars: vec!["i", "j"],
        depth: 4,
        cycle: false,
        ifchanged: false,
        raw: false,
        comment: false,
        capture: true,
        counters: false,
        case: false,
        paths: false,
        filters: vec![],
        coll_names: vec!["x", "y"],
        wild_ranges: false,
        ops: vec!["==", "<", ">="],
        unicode_text: false,
        ..GenCfg::all()
    }
}

fn rand_strategy() -> BoxedStrategy<Rand> {
    let arr = |max: usize| proptest::collection::vec((0i64..100).prop_map(RV::Int), 0..=max).prop_map(RV::Arr);
    (astgen::nodes(&rand_cfg(), 5), arr(40), arr(6), 0i64..45)
        .prop_map(|(nodes, x, y, z)| Rand { nodes, data: obj(vec![("x", x), ("y", y), ("z", RV::Int(z)), ("i", RV::Int(-1)), ("j", RV::Int(-2))]) })
        .boxed()
}

fn big_header() -> BoxedStrategy<Header> {
    (0i64..=40, proptest::option::of(0i64..45), proptest::option::of(0i64..45), any::<bool>(), proptest::option::of(proptest::option::of(1i64..9)), 0usize..4, any::<bool>())
        .prop_map(|(n, offset, limit, reversed, tablerow, kind, via_var)| Header { n, offset, limit, reversed: reversed && tablerow.is_none(), tablerow, kind: KINDS[kind], via_var })
        .boxed()
}

pub fn rand_oracle(c: &Rand, obs: &mut Obs) -> Check {
    let src = print(&c.nodes);
    if src.contains("limit:") || src.contains("offset:") || src.contains("reversed") || src.contains("break") || src.contains("continue") {
        obs.nt(&(src, c.data.dump()));
    }
    differential(&c.nodes, &c.data, &[], obs, "loop-random")
}

/// ranges whose bounds sit at the i64 limits (literal and through variables), for and tablerow
fn limit_ranges() -> Vec<Rand> {
    let mut v = Vec::new();
    let marks = [i64::MAX, i64::MIN, 0];
    for m in marks {
        for lo_d in -3i64..=3 {
            for hi_d in -3i64..=3 {
                let (Some(lo), Some(hi)) = (m.checked_add(lo_d), m.checked_add(hi_d)) else { continue };
                if hi.saturating_sub(lo) > 8 {
                    continue;
                }
                for via_var in [false, true] {
                    for table in [false, true] {
                        let (a, b) = if via_var { (Expr::var("lo"), Expr::var("hi")) } else { (Expr::int(lo), Expr::int(hi)) };
                        let body = vec![txt("["), out(Expr::var("i")), txt(":"), out(Expr::path(if table { "tablerow" } else { "forloop" }, &["index"])), txt("/"), out(Expr::path(if table { "tablerow" } else { "forloop" }, &["length"])), txt(if table { "" } else { "" }), txt("]")];
                        let node = if table {
                            Node::TableRow { var: "i".into(), coll: Coll::Range(a, b), cols: Some(Expr::int(2)), limit: None, offset: None, body, open: Tr::PLAIN, close: Tr::PLAIN }
                        } else {
                            Node::For { var: "i".into(), coll: Coll::Range(a, b), limit: None, offset: None, reversed: lo_d % 2 == 0, body, else_: Some((vec![txt("ELSE")], Tr::PLAIN)), open: Tr::PLAIN, close: Tr::PLAIN }
                        };
                        v.push(Rand { nodes: vec![txt("<"), node, txt(">")], data: obj(vec![("lo", RV::Int(lo)), ("hi", RV::Int(hi))]) });
                    }
                }
            }
        }
    }
    v
}

pub fn run(ctx: &Ctx) {
    ctx.set_rule("E2 cube: collection length 0..6 x offset {absent,0..8} x limit {absent,0..8} x reversed x {for, tablerow cols absent/1..4} x {array, literal range, variable-bound range, descending range, single-key object, nil} x attributes as literals / through variables, body prints the item and every forloop/tablerow field, for-else present; objects with 2..8 keys (iteration order unspecified) by a validity predicate: the right number of iterations, every visited element a distinct entry, fields truthful, else branch exactly when nothing is selected; second cube: break/continue guarded by forloop.index == k (k 1..5) at three positions of two nested loops (n, m 0..4), guard wrapped in if / capture / case / an included partial; E1: headers with n <= 40, random nested loop programs. Oracle: reference interpreter. Non-trivial = window differs from the whole collection (offset/limit/reversed) or an interrupt is present; distinct by case.");
    ctx.exhaustive("headers", 7 * 10 * 10 * 2 * 6 * 6 * 2, header_nth, header_oracle);
    ctx.exhaustive("interrupts", 5 * 5 * 2 * 3 * 5 * 4, interrupt_nth, interrupt_oracle);
    ctx.cases("ranges_at_i64_limits", limit_ranges(), rand_oracle);
    ctx.exhaustive("multi_key_objects", 7 * 10 * 10 * 2 * 2, multi_key_nth, multi_key_oracle);
    ctx.random("big_headers", ctx.pick(150_000, 3_000_000), big_header, header_oracle);
    ctx.random("programs", ctx.pick(150_000, 6_000_000), rand_strategy, rand_oracle);
}

/// Byte-driven twin of `rand_strategy` (engine E6b, see astdec.rs).
pub fn fuzz_case(d: &mut crate::astdec::Dec) -> Rand {
    let mut arr = |d: &mut crate::astdec::Dec, max: usize| {
        let n = d.below(max + 1);
        RV::Arr((0..n).map(|_| RV::Int(d.range(0, 100))).collect())
    };
    let x = arr(d, 40);
    let y = arr(d, 6);
    let z = d.range(0, 45);
    let nodes = d.nodes(&rand_cfg(), 5);
    Rand { nodes, data: obj(vec![("x", x), ("y", y), ("z", RV::Int(z)), ("i", RV::Int(-1)), ("j", RV::Int(-2))]) }
}
