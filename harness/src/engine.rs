//! Shared engine: context, evidence, panic capture, sharded proptest runner (E1),
//! bounded-exhaustive enumerator (E2), replay, known findings, watchdog.

use proptest::strategy::{Strategy, ValueTree};
use proptest::test_runner::{Config, RngAlgorithm, TestCaseError, TestError, TestRng, TestRunner};
use serde::de::DeserializeOwned;
use serde::Serialize;
use serde_json::{json, Value as J};
use std::cell::RefCell;
use std::collections::{BTreeMap, HashSet};
use std::hash::{Hash, Hasher};
use std::panic::{catch_unwind, AssertUnwindSafe};
use std::sync::atomic::{AtomicBool, AtomicU64, Ordering};
use std::sync::Mutex;
use std::time::Instant;

pub const VERIF_DIR: &str = "/verif";
pub const NSHARDS: usize = 16;
const NT_CAP: usize = 4_000_000;

// ---------------------------------------------------------------------------------------------
// panic capture

thread_local! {
    static LAST_PANIC: RefCell<Option<String>> = const { RefCell::new(None) };
    static IN_CATCH: RefCell<u32> = const { RefCell::new(0) };
}

pub fn install_panic_hook() {
    let default = std::panic::take_hook();
    std::panic::set_hook(Box::new(move |info| {
        let loc = info
            .location()
            .map(|l| format!("{}:{}", l.file(), l.line()))
            .unwrap_or_else(|| "?".into());
        let msg = if let Some(s) = info.payload().downcast_ref::<&str>() {
            (*s).to_string()
        } else if let Some(s) = info.payload().downcast_ref::<String>() {
            s.clone()
        } else {
            "<non-string panic>".to_string()
        };
        let inside = IN_CATCH.with(|c| *c.borrow() > 0);
        if inside {
            LAST_PANIC.with(|p| *p.borrow_mut() = Some(format!("{msg} @ {loc}")));
        } else {
            default(info);
        }
    }));
}

#[derive(Debug, Clone)]
pub struct Panicked {
    /// message @ file:line
    pub what: String,
}

impl Panicked {
    /// file of the panic location without line (stable under edits), plus the first words of the message
    pub fn site(&self) -> String {
        let (msg, loc) = match self.what.rsplit_once(" @ ") {
            Some((m, l)) => (m, l),
            None => (self.what.as_str(), "?"),
        };
        let file = loc.rsplit_once(':').map(|x| x.0).unwrap_or(loc);
        let file = file.rsplit("/crates/").next().unwrap_or(file);
        let file = file.trim_start_matches("/repo/");
        let m: String = msg.chars().take(60).collect();
        format!("{file}: {m}")
    }
    pub fn in_repo(&self) -> bool {
        self.what.contains("/repo/") || self.what.contains("crates/")
    }
}

/// Run engine-under-test code; a panic is returned as a value.
pub fn guard<T>(f: impl FnOnce() -> T) -> Result<T, Panicked> {
    IN_CATCH.with(|c| *c.borrow_mut() += 1);
    let r = catch_unwind(AssertUnwindSafe(f));
    IN_CATCH.with(|c| *c.borrow_mut() -= 1);
    match r {
        Ok(v) => Ok(v),
        Err(_) => {
            let what = LAST_PANIC
                .with(|p| p.borrow_mut().take())
                .unwrap_or_else(|| "<unknown panic>".into());
            Err(Panicked { what })
        }
    }
}

// ---------------------------------------------------------------------------------------------
// failures, known findings

#[derive(Debug, Clone)]
pub struct Failure {
    /// stable signature used to match known findings (no line numbers, no addresses)
    pub sig: String,
    /// human readable detail: expected vs. actual
    pub detail: String,
}

impl Failure {
    pub fn new(sig: impl Into<String>, detail: impl Into<String>) -> Self {
        Failure { sig: sig.into(), detail: detail.into() }
    }
}

pub type Check = Result<(), Failure>;

#[derive(Debug, Clone, serde::Deserialize)]
pub struct Finding {
    pub status: String, // "known" | "fixed"
    pub property: String,
    #[serde(default)]
    pub sub: String,
    /// exact signature (known entries)
    #[serde(default)]
    pub signature: String,
    #[serde(default)]
    pub commit: String,
    pub what: String,
    #[serde(default)]
    pub replay: String,
}

#[derive(Debug, Default, serde::Deserialize)]
pub struct Findings {
    pub findings: Vec<Finding>,
}

// ---------------------------------------------------------------------------------------------
// per-evaluation observation

#[derive(Default)]
pub struct Obs {
    /// hashes of the distinct non-trivial cases this oracle call covered (usually 0 or 1)
    pub nontrivial: Vec<u64>,
    pub classes: Vec<&'static str>,
    pub want_sample: bool,
    pub sample: Option<J>,
    /// additional engine executions performed by this oracle call beyond the first
    pub extra_evals: u64,
}

impl Obs {
    pub fn nt<H: Hash + ?Sized>(&mut self, key: &H) {
        let h = hash_of(key);
        if !self.nontrivial.contains(&h) {
            self.nontrivial.push(h);
        }
    }
    pub fn class(&mut self, c: &'static str) {
        self.classes.push(c);
    }
    pub fn sample_with(&mut self, f: impl FnOnce() -> J) {
        if self.want_sample && self.sample.is_none() {
            self.sample = Some(f());
        }
    }
}

/// Intern a (low-cardinality) label so that it can be used as a class name.
pub fn intern(s: &str) -> &'static str {
    static SET: Mutex<Option<std::collections::HashMap<String, &'static str>>> = Mutex::new(None);
    let mut g = SET.lock().unwrap();
    let m = g.get_or_insert_with(Default::default);
    if let Some(v) = m.get(s) {
        return v;
    }
    if m.len() > 200 {
        return "other";
    }
    let leaked: &'static str = Box::leak(s.to_string().into_boxed_str());
    m.insert(s.to_string(), leaked);
    leaked
}

pub fn hash_of<H: Hash + ?Sized>(h: &H) -> u64 {
    let mut s = std::collections::hash_map::DefaultHasher::new();
    h.hash(&mut s);
    s.finish()
}

// ---------------------------------------------------------------------------------------------
// context

#[derive(Clone, Copy, PartialEq, Eq, Debug)]
pub enum Tier {
    Quick,
    Thorough,
}

pub struct Violation {
    pub sub: String,
    pub case: J,
    pub failure: Failure,
    pub replay_path: String,
}

#[derive(Default)]
struct SubStats {
    evaluations: u64,
    nontrivial: u64,
    exhaustive: Option<bool>,
    space: Option<String>,
}

pub struct Ctx {
    pub prop: String,
    pub tier: Tier,
    pub seed: u64,
    pub replay: Option<(String, J)>,
    pub strict: bool,
    pub started: Instant,
    findings: Findings,
    evaluations: AtomicU64,
    excluded_known: AtomicU64,
    nt: Mutex<HashSet<u64>>,
    nt_overflow: AtomicU64,
    classes: Mutex<BTreeMap<String, u64>>,
    samples: Mutex<Vec<J>>,
    subs: Mutex<BTreeMap<String, SubStats>>,
    pub violations: Mutex<Vec<Violation>>,
    known_hits: Mutex<BTreeMap<String, (String, u64)>>,
    pub rule: Mutex<String>,
    pub assumptions: Mutex<Vec<String>>,
    pub level: Mutex<String>,
    pub stop: AtomicBool,
    pub inconclusive: Mutex<Vec<String>>,
    pub extra: Mutex<BTreeMap<String, J>>,
    pub regressions_run: AtomicU64,
}

impl Ctx {
    pub fn new(prop: &str, tier: Tier, seed: u64, replay: Option<(String, J)>) -> Self {
        let findings: Findings = std::fs::read_to_string(format!("{VERIF_DIR}/known_findings.json"))
            .ok()
            .and_then(|s| serde_json::from_str(&s).ok())
            .unwrap_or_default();
        Ctx {
            prop: prop.to_string(),
            tier,
            seed,
            replay,
            strict: std::env::var("VERIF_STRICT").is_ok(),
            started: Instant::now(),
            findings,
            evaluations: AtomicU64::new(0),
            excluded_known: AtomicU64::new(0),
            nt: Mutex::new(HashSet::new()),
            nt_overflow: AtomicU64::new(0),
            classes: Mutex::new(BTreeMap::new()),
            samples: Mutex::new(Vec::new()),
            subs: Mutex::new(BTreeMap::new()),
            violations: Mutex::new(Vec::new()),
            known_hits: Mutex::new(BTreeMap::new()),
            rule: Mutex::new(String::new()),
            assumptions: Mutex::new(Vec::new()),
            level: Mutex::new("exploration".into()),
            stop: AtomicBool::new(false),
            inconclusive: Mutex::new(Vec::new()),
            extra: Mutex::new(BTreeMap::new()),
            regressions_run: AtomicU64::new(0),
        }
    }

    pub fn quick(&self) -> bool {
        self.tier == Tier::Quick
    }
    /// pick a size by tier
    pub fn pick<T>(&self, quick: T, thorough: T) -> T {
        if self.quick() { quick } else { thorough }
    }
    pub fn set_rule(&self, r: &str) {
        *self.rule.lock().unwrap() = r.to_string();
    }
    pub fn assume(&self, a: &str) {
        self.assumptions.lock().unwrap().push(a.to_string());
    }
    pub fn note(&self, k: &str, v: J) {
        self.extra.lock().unwrap().insert(k.to_string(), v);
    }

    fn is_known(&self, sub: &str, f: &Failure) -> Option<&Finding> {
        if self.strict {
            return None;
        }
        self.findings.findings.iter().find(|k| {
            k.status == "known"
                && k.property == self.prop
                && (k.sub.is_empty() || k.sub == sub)
                && k.signature == f.sig
        })
    }

    /// Returns true if the failure is an unlisted violation (the case failed), false if it is a
    /// listed known finding (excluded, counted).
    fn judge(&self, sub: &str, f: &Failure) -> bool {
        if let Some(k) = self.is_known(sub, f) {
            self.excluded_known.fetch_add(1, Ordering::Relaxed);
            let mut h = self.known_hits.lock().unwrap();
            let e = h.entry(k.signature.clone()).or_insert((k.what.clone(), 0));
            e.1 += 1;
            false
        } else {
            true
        }
    }

    fn account(&self, sub: &str, evals: u64, nts: Vec<u64>, classes: BTreeMap<&'static str, u64>, samples: Vec<J>) {
        self.evaluations.fetch_add(evals, Ordering::Relaxed);
        {
            let mut s = self.subs.lock().unwrap();
            let e = s.entry(sub.to_string()).or_default();
            e.evaluations += evals;
            e.nontrivial += nts.len() as u64;
        }
        {
            let mut set = self.nt.lock().unwrap();
            for h in nts {
                if set.len() < NT_CAP {
                    set.insert(h ^ hash_of(sub));
                } else {
                    self.nt_overflow.fetch_add(1, Ordering::Relaxed);
                }
            }
        }
        {
            let mut c = self.classes.lock().unwrap();
            for (k, v) in classes {
                *c.entry(format!("{sub}/{k}")).or_insert(0) += v;
            }
        }
        {
            let mut s = self.samples.lock().unwrap();
            let have = s.iter().filter(|x| x["sub"] == sub).count();
            for (i, x) in samples.into_iter().enumerate() {
                if have + i < 4 {
                    s.push(json!({"sub": sub, "case": x}));
                }
            }
        }
    }

    fn record_violation(&self, sub: &str, case: J, failure: Failure) {
        let dir = format!("{VERIF_DIR}/replays{}/{}", scratch_suffix(), self.prop);
        let _ = std::fs::create_dir_all(&dir);
        let h = hash_of(&case.to_string());
        let path = format!("{dir}/{sub}-{:012x}.json", h & 0xffff_ffff_ffff);
        let body = json!({
            "property": self.prop, "sub": sub, "case": case,
            "signature": failure.sig, "detail": failure.detail,
            "tier": format!("{:?}", self.tier), "seed": self.seed,
        });
        let _ = std::fs::write(&path, serde_json::to_string_pretty(&body).unwrap());
        self.violations.lock().unwrap().push(Violation {
            sub: sub.to_string(),
            case,
            failure,
            replay_path: path,
        });
    }

    /// (sub, case, path) of every replay file referenced by a `fixed` finding of this property.
    pub fn fixed_replays(&self) -> Vec<(String, J, String)> {
        let mut out = Vec::new();
        for f in &self.findings.findings {
            if f.status == "fixed" && f.property == self.prop && !f.replay.is_empty() {
                let path = if f.replay.starts_with('/') { f.replay.clone() } else { format!("{VERIF_DIR}/{}", f.replay) };
                match std::fs::read_to_string(&path).ok().and_then(|t| serde_json::from_str::<J>(&t).ok()) {
                    Some(j) => out.push((j["sub"].as_str().unwrap_or("").to_string(), j["case"].clone(), path)),
                    None => self.inconclusive.lock().unwrap().push(format!("cannot read regression replay {path}")),
                }
            }
        }
        out
    }

    pub fn adopt_regression(&self, other: Ctx, path: &str) {
        let mut v = other.violations.into_inner().unwrap();
        for x in v.iter_mut() {
            x.replay_path = path.to_string();
        }
        self.regressions_run.fetch_add(1, Ordering::Relaxed);
        self.violations.lock().unwrap().append(&mut v);
        self.inconclusive.lock().unwrap().append(&mut other.inconclusive.into_inner().unwrap());
    }

    pub fn violation_count(&self) -> usize {
        self.violations.lock().unwrap().len()
    }

    /// Is this driver call active (not filtered out by replay mode)?
    fn active(&self, sub: &str) -> Option<Option<&J>> {
        // development aid: VERIF_ONLY=<sub> runs a single sub-check
        if let Ok(only) = std::env::var("VERIF_ONLY") {
            if only != sub {
                return None;
            }
        }
        match &self.replay {
            None => Some(None),
            Some((s, c)) if s == sub => Some(Some(c)),
            Some(_) => None,
        }
    }

    // -----------------------------------------------------------------------------------------
    // E1: sharded proptest

    /// Run `cases` random cases (split over shards) of `strategy` through `oracle`.
    pub fn random<S, C>(
        &self,
        sub: &str,
        cases: u64,
        strategy: impl Fn() -> S + Sync,
        oracle: impl Fn(&C, &mut Obs) -> Check + Sync,
    ) where
        S: Strategy<Value = C>,
        C: std::fmt::Debug + Serialize + DeserializeOwned + Clone,
    {
        match self.active(sub) {
            None => return,
            Some(Some(case)) => {
                self.replay_one(sub, case, &oracle);
                return;
            }
            Some(None) => {}
        }
        let shards = if cases < 64 { 1 } else { NSHARDS as u64 };
        let per = cases.div_ceil(shards);
        std::thread::scope(|sc| {
            for shard in 0..shards {
                let strategy = &strategy;
                let oracle = &oracle;
                sc.spawn(move || {
                    let mut seed = [0u8; 32];
                    seed[..8].copy_from_slice(&self.seed.to_le_bytes());
                    seed[8..16].copy_from_slice(&hash_of(&(self.prop.as_str(), sub)).to_le_bytes());
                    seed[16..24].copy_from_slice(&shard.to_le_bytes());
                    let rng = TestRng::from_seed(RngAlgorithm::ChaCha, &seed);
                    let config = Config {
                        cases: per as u32,
                        failure_persistence: None,
                        max_shrink_iters: 4096,
                        // rejects are counted over the whole run of a shard, not per case: a filter that
                        // drops 1% of the values must not abort a run of millions of cases
                        max_global_rejects: u32::MAX,
                        max_local_rejects: u32::MAX,
                        ..Config::default()
                    };
                    let mut runner = TestRunner::new_with_rng(config, rng);
                    struct Acc {
                        evals: u64,
                        nts: Vec<u64>,
                        classes: BTreeMap<&'static str, u64>,
                        samples: Vec<J>,
                    }
                    let acc = RefCell::new(Acc { evals: 0, nts: Vec::new(), classes: BTreeMap::new(), samples: Vec::new() });
                    let failed = std::cell::Cell::new(false);
                    let last_fail: RefCell<Option<Failure>> = RefCell::new(None);
                    let strat = strategy();
                    let res = runner.run(&strat, |case| {
                        if self.stop.load(Ordering::Relaxed) && !failed.get() {
                            return Ok(());
                        }
                        trace_case(sub, shard, &case);
                        let nsamples = acc.borrow().samples.len();
                        let mut obs = Obs { want_sample: !failed.get() && shard == 0 && nsamples < 4, ..Default::default() };
                        slot_enter(sub, &case);
                        let r = match guard(|| oracle(&case, &mut obs)) {
                            Ok(r) => r,
                            Err(p) => Err(Failure::new(format!("harness-or-engine panic: {}", p.site()), p.what.clone())),
                        };
                        slot_leave();
                        if !failed.get() {
                            let mut a = acc.borrow_mut();
                            a.evals += 1 + obs.extra_evals;
                            a.nts.append(&mut obs.nontrivial);
                            for c in obs.classes.drain(..) {
                                *a.classes.entry(c).or_insert(0) += 1;
                            }
                            if obs.want_sample {
                                a.samples.push(obs.sample.take().unwrap_or_else(|| serde_json::to_value(&case).unwrap_or(J::Null)));
                            }
                        }
                        match r {
                            Ok(()) => Ok(()),
                            Err(f) => {
                                if self.judge(sub, &f) {
                                    failed.set(true);
                                    *last_fail.borrow_mut() = Some(f.clone());
                                    Err(TestCaseError::fail(f.sig))
                                } else {
                                    Ok(())
                                }
                            }
                        }
                    });
                    let Acc { evals, nts, classes, samples } = acc.into_inner();
                    self.account(sub, evals, nts, classes, samples);
                    match res {
                        Ok(()) => {}
                        Err(TestError::Fail(_, shrunk)) => {
                            // re-evaluate the shrunk case to get its own failure text
                            let mut obs = Obs::default();
                            let f = match guard(|| oracle(&shrunk, &mut obs)) {
                                Ok(Err(f)) => f,
                                Err(p) => Failure::new(format!("harness-or-engine panic: {}", p.site()), p.what),
                                Ok(Ok(())) => last_fail.borrow().clone().unwrap_or_else(|| Failure::new("flaky", "shrunk case passes on re-evaluation")),
                            };
                            self.stop.store(true, Ordering::Relaxed);
                            self.record_violation(sub, serde_json::to_value(&shrunk).unwrap_or(J::Null), f);
                        }
                        Err(TestError::Abort(reason)) => {
                            self.inconclusive.lock().unwrap().push(format!("{sub}: proptest aborted: {reason}"));
                        }
                    }
                });
            }
        });
    }

    // -----------------------------------------------------------------------------------------
    // E2: bounded exhaustive enumeration, index based

    /// Enumerate cases `nth(0..n)`, sharded by contiguous index ranges.  `nth` may return None to
    /// skip an index that does not denote a case (counted as not evaluated).
    pub fn exhaustive<C>(
        &self,
        sub: &str,
        n: u64,
        nth: impl Fn(u64) -> Option<C> + Sync,
        oracle: impl Fn(&C, &mut Obs) -> Check + Sync,
    ) where
        C: std::fmt::Debug + Serialize + DeserializeOwned + Clone,
    {
        self.enumerate(sub, n, 1, nth, oracle, true)
    }

    /// Like `exhaustive` but visits only every `stride`-th index starting at a seed-dependent
    /// phase (a stratified slice of an enumerated space); not flagged exhaustive.
    pub fn strided<C>(
        &self,
        sub: &str,
        n: u64,
        stride: u64,
        nth: impl Fn(u64) -> Option<C> + Sync,
        oracle: impl Fn(&C, &mut Obs) -> Check + Sync,
    ) where
        C: std::fmt::Debug + Serialize + DeserializeOwned + Clone,
    {
        self.enumerate(sub, n, stride.max(1), nth, oracle, stride <= 1)
    }

    fn enumerate<C>(
        &self,
        sub: &str,
        n: u64,
        stride: u64,
        nth: impl Fn(u64) -> Option<C> + Sync,
        oracle: impl Fn(&C, &mut Obs) -> Check + Sync,
        full: bool,
    ) where
        C: std::fmt::Debug + Serialize + DeserializeOwned + Clone,
    {
        match self.active(sub) {
            None => return,
            Some(Some(case)) => {
                self.replay_one(sub, case, &oracle);
                return;
            }
            Some(None) => {}
        }
        let phase = if stride > 1 { self.seed % stride } else { 0 };
        let slots = n.div_ceil(stride);
        let shards = if slots < 64 { 1 } else { NSHARDS as u64 };
        let per = slots.div_ceil(shards);
        let first_fail: Mutex<Option<(u64, J, Failure)>> = Mutex::new(None);
        std::thread::scope(|sc| {
            for shard in 0..shards {
                let nth = &nth;
                let oracle = &oracle;
                let first_fail = &first_fail;
                sc.spawn(move || {
                    let lo = shard * per;
                    let hi = ((shard + 1) * per).min(slots);
                    let mut evals = 0u64;
                    let mut nts = Vec::new();
                    let mut classes: BTreeMap<&'static str, u64> = BTreeMap::new();
                    let mut samples = Vec::new();
                    for slot in lo..hi {
                        let i = slot * stride + phase;
                        if i >= n {
                            break;
                        }
                        if slot % 1024 == 0 && self.stop.load(Ordering::Relaxed) {
                            break;
                        }
                        let Some(case) = nth(i) else { continue };
                        trace_case(sub, shard, &case);
                        let mut obs = Obs { want_sample: samples.len() < 2 && (slot - lo) % 997 == 0, ..Default::default() };
                        slot_enter(sub, &case);
                        let r = match guard(|| oracle(&case, &mut obs)) {
                            Ok(r) => r,
                            Err(p) => Err(Failure::new(format!("harness-or-engine panic: {}", p.site()), p.what.clone())),
                        };
                        slot_leave();
                        evals += 1 + obs.extra_evals;
                        nts.append(&mut obs.nontrivial);
                        for c in obs.classes.drain(..) {
                            *classes.entry(c).or_insert(0) += 1;
                        }
                        if obs.want_sample {
                            samples.push(obs.sample.take().unwrap_or_else(|| serde_json::to_value(&case).unwrap_or(J::Null)));
                        }
                        if let Err(f) = r {
                            if self.judge(sub, &f) {
                                let mut ff = first_fail.lock().unwrap();
                                let better = ff.as_ref().map(|x| i < x.0).unwrap_or(true);
                                if better {
                                    *ff = Some((i, serde_json::to_value(&case).unwrap_or(J::Null), f));
                                }
                                self.stop.store(true, Ordering::Relaxed);
                                break;
                            }
                        }
                    }
                    self.account(sub, evals, nts, classes, samples);
                });
            }
        });
        {
            let mut s = self.subs.lock().unwrap();
            let e = s.entry(sub.to_string()).or_default();
            e.exhaustive = Some(full);
            e.space = Some(format!("{n} indices, stride {stride}"));
        }
        if let Some((_, case, f)) = first_fail.into_inner().unwrap() {
            self.record_violation(sub, case, f);
        }
    }

    /// Run a list of explicit cases (regressions, hand-made boundary cases).
    pub fn cases<C>(&self, sub: &str, list: Vec<C>, oracle: impl Fn(&C, &mut Obs) -> Check + Sync)
    where
        C: std::fmt::Debug + Serialize + DeserializeOwned + Clone + Sync,
    {
        let n = list.len() as u64;
        self.enumerate(sub, n, 1, |i| Some(list[i as usize].clone()), oracle, true)
    }

    fn replay_one<C>(&self, sub: &str, case: &J, oracle: &(impl Fn(&C, &mut Obs) -> Check + Sync))
    where
        C: std::fmt::Debug + Serialize + DeserializeOwned + Clone,
    {
        let c: C = match serde_json::from_value(case.clone()) {
            Ok(c) => c,
            Err(e) => {
                self.inconclusive.lock().unwrap().push(format!("replay: cannot decode case for {sub}: {e}"));
                return;
            }
        };
        let mut obs = Obs { want_sample: true, ..Default::default() };
        slot_enter(sub, &c);
        let r = match guard(|| oracle(&c, &mut obs)) {
            Ok(r) => r,
            Err(p) => Err(Failure::new(format!("harness-or-engine panic: {}", p.site()), p.what.clone())),
        };
        slot_leave();
        self.account(sub, 1, obs.nontrivial.clone(), BTreeMap::new(), vec![case.clone()]);
        if let Err(f) = r {
            if self.judge(sub, &f) {
                println!("REPLAY-FAIL sub={sub} sig={} detail={}", f.sig, f.detail);
                self.record_violation(sub, case.clone(), f);
            }
        } else {
            println!("REPLAY-PASS sub={sub}");
        }
    }

    // -----------------------------------------------------------------------------------------
    // finishing: evidence + exit code

    pub fn finish(&self) -> i32 {
        let wall = self.started.elapsed().as_secs_f64();
        let viol = self.violations.lock().unwrap();
        let known = self.known_hits.lock().unwrap();
        for (sig, (what, n)) in known.iter() {
            println!("KNOWN-FINDING: property={} {} [signature={}; {} generated cases excluded]", self.prop, what, sig, n);
        }
        for v in viol.iter() {
            println!("VIOLATION property={} replay={}", self.prop, v.replay_path);
            println!("  sub={} signature={}", v.sub, v.failure.sig);
            println!("  detail={}", v.failure.detail.chars().take(2000).collect::<String>());
        }
        let inconc = self.inconclusive.lock().unwrap();
        for i in inconc.iter() {
            println!("INCONCLUSIVE: {i}");
        }
        if self.replay.is_some() {
            return if !viol.is_empty() { 1 } else if !inconc.is_empty() { 2 } else { 0 };
        }
        let subs = self.subs.lock().unwrap();
        let all_exh = !subs.is_empty() && subs.values().all(|s| s.exhaustive == Some(true));
        let subs_j: BTreeMap<_, _> = subs
            .iter()
            .map(|(k, s)| {
                (k.clone(), json!({"evaluations": s.evaluations, "nontrivial_hits": s.nontrivial, "exhaustive": s.exhaustive, "space": s.space}))
            })
            .collect();
        let nt = self.nt.lock().unwrap().len() as u64;
        let mut coverage = serde_json::Map::new();
        coverage.insert("evaluations".into(), json!(self.evaluations.load(Ordering::Relaxed)));
        coverage.insert("distinct_nontrivial".into(), json!(nt));
        coverage.insert("distinct_nontrivial_note".into(), json!(format!("distinct hashes of non-trivial cases, set capped at {NT_CAP}; {} further non-trivial hits not inserted after the cap", self.nt_overflow.load(Ordering::Relaxed))));
        coverage.insert("rule".into(), json!(*self.rule.lock().unwrap()));
        coverage.insert("samples".into(), J::Array(self.samples.lock().unwrap().clone()));
        coverage.insert("exhaustive".into(), json!(all_exh));
        coverage.insert("sub_checks".into(), json!(subs_j));
        coverage.insert("classes".into(), json!(*self.classes.lock().unwrap()));
        coverage.insert("excluded_known".into(), json!(self.excluded_known.load(Ordering::Relaxed)));
        coverage.insert("regression_replays_run".into(), json!(self.regressions_run.load(Ordering::Relaxed)));
        for (k, v) in self.extra.lock().unwrap().iter() {
            coverage.insert(k.clone(), v.clone());
        }
        let ev = json!({
            "property_id": self.prop,
            "tier": if self.quick() { "quick" } else { "thorough" },
            "seed": self.seed,
            "level": *self.level.lock().unwrap(),
            "coverage": J::Object(coverage),
            "assumptions": *self.assumptions.lock().unwrap(),
            "wall_s": wall,
            "violations": viol.len(),
        });
        let _ = std::fs::create_dir_all(format!("{VERIF_DIR}/evidence{}", scratch_suffix()));
        let path = format!("{VERIF_DIR}/evidence{}/{}.json", scratch_suffix(), self.prop);
        std::fs::write(&path, serde_json::to_string_pretty(&ev).unwrap()).expect("write evidence");
        println!(
            "property={} tier={:?} seed={} evaluations={} distinct_nontrivial={} excluded_known={} violations={} wall_s={:.1}",
            self.prop,
            self.tier,
            self.seed,
            self.evaluations.load(Ordering::Relaxed),
            nt,
            self.excluded_known.load(Ordering::Relaxed),
            viol.len(),
            wall
        );
        if !viol.is_empty() {
            1
        } else if !inconc.is_empty() {
            2
        } else {
            0
        }
    }
}

// ---------------------------------------------------------------------------------------------
// watchdog: every worker thread publishes (start time, pointer to the case it is executing, a
// monomorphised serialiser); a monitor thread reports a case that runs longer than the limit.

pub const STALL_EXIT: i32 = 4;
const MAX_SLOTS: usize = 64;

struct Slot {
    start_ms: AtomicU64,
    case_ptr: std::sync::atomic::AtomicPtr<()>,
    ser: std::sync::atomic::AtomicUsize,
    sub: Mutex<String>,
}

static SLOTS: [Slot; MAX_SLOTS] = {
    #[allow(clippy::declare_interior_mutable_const)]
    const S: Slot = Slot { start_ms: AtomicU64::new(0), case_ptr: std::sync::atomic::AtomicPtr::new(std::ptr::null_mut()), ser: std::sync::atomic::AtomicUsize::new(0), sub: Mutex::new(String::new()) };
    [S; MAX_SLOTS]
};
static EPOCH: std::sync::OnceLock<Instant> = std::sync::OnceLock::new();

fn now_ms() -> u64 {
    EPOCH.get_or_init(Instant::now).elapsed().as_millis() as u64 + 1
}

fn ser_case<C: Serialize>(p: *const ()) -> String {
    // the worker is inside the oracle call with the case alive while this runs
    let c: &C = unsafe { &*(p as *const C) };
    serde_json::to_string(c).unwrap_or_default()
}

thread_local! {
    static MY_SLOT: std::cell::Cell<usize> = const { std::cell::Cell::new(usize::MAX) };
}
static NEXT_SLOT: AtomicU64 = AtomicU64::new(0);

fn slot_enter<C: Serialize>(sub: &str, case: &C) {
    let i = MY_SLOT.with(|s| {
        if s.get() == usize::MAX {
            s.set((NEXT_SLOT.fetch_add(1, Ordering::Relaxed) as usize) % MAX_SLOTS);
            *SLOTS[s.get()].sub.lock().unwrap() = sub.to_string();
        }
        s.get()
    });
    let slot = &SLOTS[i];
    slot.case_ptr.store(case as *const C as *mut (), Ordering::Release);
    slot.ser.store(ser_case::<C> as usize, Ordering::Release);
    slot.start_ms.store(now_ms(), Ordering::Release);
}

fn slot_leave() {
    let i = MY_SLOT.with(|s| s.get());
    if i != usize::MAX {
        SLOTS[i].start_ms.store(0, Ordering::Release);
    }
}

/// Started once by the worker process.  A case running longer than `limit_s` is written to
/// `<stall_dir>/stall.json` (a replay file) and the process exits with STALL_EXIT; the parent
/// re-runs that single case to decide between "hang" (violation) and "inconclusive".
pub fn start_watchdog(prop: String, limit_s: u64, stall_dir: String) {
    std::thread::spawn(move || loop {
        std::thread::sleep(std::time::Duration::from_millis(1000));
        let now = now_ms();
        for slot in SLOTS.iter() {
            let st = slot.start_ms.load(Ordering::Acquire);
            if st != 0 && now.saturating_sub(st) > limit_s * 1000 {
                let p = slot.case_ptr.load(Ordering::Acquire);
                let f = slot.ser.load(Ordering::Acquire);
                if p.is_null() || f == 0 || slot.start_ms.load(Ordering::Acquire) != st {
                    continue;
                }
                let ser: fn(*const ()) -> String = unsafe { std::mem::transmute(f) };
                let case = ser(p as *const ());
                let sub = slot.sub.lock().map(|s| s.clone()).unwrap_or_default();
                let _ = std::fs::create_dir_all(&stall_dir);
                let body = format!("{{\"property\": {:?}, \"sub\": {:?}, \"case\": {}, \"note\": \"case did not finish within {} s\"}}", prop, sub, if case.is_empty() { "null".to_string() } else { case }, limit_s);
                let _ = std::fs::write(format!("{stall_dir}/stall.json"), body);
                println!("STALL: a case of sub-check {sub} has been running for more than {limit_s} s; written to {stall_dir}/stall.json");
                std::process::exit(STALL_EXIT);
            }
        }
    });
}

/// Development / abort diagnosis aid: with VERIF_TRACE_DIR set, every case is written to
/// <dir>/<sub>.<shard>.json before it is executed (the last file content is the culprit when the
/// process is killed by a signal).
pub fn trace_case<C: Serialize>(sub: &str, shard: u64, case: &C) {
    if let Ok(dir) = std::env::var("VERIF_TRACE_DIR") {
        let _ = std::fs::write(format!("{dir}/{sub}.{shard}.json"), serde_json::to_string(&json!({"sub": sub, "case": case})).unwrap_or_default());
    }
}

/// When VERIF_SCRATCH is set (sensitivity runs against a deliberately broken tree), replay and
/// evidence files go to sibling scratch directories so that the committed ones are not touched.
pub fn scratch_suffix() -> &'static str {
    if std::env::var("VERIF_SCRATCH").is_ok() { ".scratch" } else { "" }
}

/// Helper for shrinking-friendly index mapping.
pub fn pick_idx(raw: u16, len: usize) -> usize {
    ((raw as usize) * len) >> 16
}

/// Simple mixed-radix odometer decode: returns digits for index `i` over `radices`
/// (least significant first).  None if i is out of range.
pub fn decode(mut i: u64, radices: &[u64]) -> Option<Vec<u64>> {
    let mut out = Vec::with_capacity(radices.len());
    for &r in radices {
        if r == 0 {
            return None;
        }
        out.push(i % r);
        i /= r;
    }
    if i == 0 { Some(out) } else { None }
}

pub fn product(radices: &[u64]) -> u64 {
    radices.iter().product()
}

/// Generate one value from a strategy deterministically (used for corpus seeding).
pub fn sample_strategy<S: Strategy>(s: &S, seed: u64) -> S::Value {
    let mut sd = [0u8; 32];
    sd[..8].copy_from_slice(&seed.to_le_bytes());
    let mut runner = TestRunner::new_with_rng(Config::default(), TestRng::from_seed(RngAlgorithm::ChaCha, &sd));
    s.new_tree(&mut runner).expect("strategy").current()
}
