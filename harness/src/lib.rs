//! Library face of the harness: the modules are shared by the `verif` binary and by the
//! cargo-fuzz target `diff` (fuzzhost/fuzz), which links this crate to reuse the generators'
//! envelopes, the reference interpreter and the oracles.

pub mod engine;
pub mod lq;
pub mod rv;
pub mod gen;
pub mod cal;
pub mod ast;
pub mod astgen;
pub mod astdec;
pub mod interp;
pub mod progs;
pub mod props;
pub mod fuzzdiff;
